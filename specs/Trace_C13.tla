----------------------------- MODULE Trace_C13 -----------------------------
(* C13: judges recorded outputs of the real cu2qu / qu2cu functions and pens.
   One judged case per trace (kinds below); all geometry and the protocol come from
   module Cu2Qu.  Coordinates arrive in units u = 2^-S and are doubled to half-units
   here; eC/eQ/eA/eB are the logged float->dyadic roundings (0 exact, 1 = half a unit);
   tolerances arrive in units u, rounded UP by the harness.
     proto  a fits table observed from the code (or replayed from MC_Cu2Qu with the
            Fits predicate stubbed) + what the real loop did
     c2q    cubic C, tolerance, returned quadratic spline Q
     same   exact identity (all_quadratic=False returned the cubic unchanged; pen pass-through)
     path   two chains of Bezier segments (qu2cu, pens): end points + Hausdorff
     samen  segment structure of several masters converted together
     exc    an undocumented exception escaped a conversion of valid input        *)
EXTENDS TraceIO, Cu2Qu

VARIABLES tid, verdict
vars == <<tid, verdict>>

RECURSIVE DblFrom(_, _, _)
DblFrom(P, i, acc) == IF i > Len(P) THEN acc ELSE DblFrom(P, i + 1, Append(acc, <<2 * P[i][1], 2 * P[i][2]>>))
Dbl(P) == DblFrom(P, 1, <<>>)     \* eager tuple (a function constructor would be re-evaluated lazily)
AllEq(s) == \A i \in 1..Len(s) : s[i] = s[1]

(* ---- protocol conformance ---- *)
JProto(t) ==
  LET L == t.L W == t.W
      fits == [c \in 1..L |-> [n \in 1..W |-> t.fits[c][n] = 1]]
      exp == PRun(PInit(L), fits, L, W)       \* the specification's run on the observed table
  IN IF t.res = "ret" THEN
        IF ~AllEq(t.ns) THEN "proto:SameN"
        ELSE IF t.ns[1] > W \/ t.ns[1] < 1 THEN "malformed:ns"
        ELSE IF ~AllFit(fits, L, t.ns[1]) THEN "proto:returned-n-does-not-fit"
        ELSE IF exp.pc = "ret" /\ exp.n < t.ns[1] THEN "proto:Minimality"
        ELSE IF exp.pc # "ret" \/ exp.n # t.ns[1] THEN "proto:result"
        ELSE "ok"
     ELSE \* the code raised ApproxNotFoundError: legal only if no n <= MAX_N fits all curves
        IF W # t.maxn /\ t.stub # 1 THEN "malformed:width"
        ELSE IF exp.pc # "raise" THEN "proto:RaiseNotWorse"
        ELSE "ok"

(* ---- cubic -> quadratic spline ---- *)
JC2Q(t) ==
  IF t.fin # 1 THEN "finite"
  ELSE IF Len(t.Q) < 3 \/ Len(t.C) # 4 THEN "shape"
  ELSE IF t.ends[1] # t.ends[3] \/ t.ends[2] # t.ends[4] THEN "endpoints"
  ELSE LET C == Dbl(t.C) Q == Dbl(t.Q) tol == 2 * t.tol n == Len(t.Q) - 2
       IN IF ~PtsInRange(C) \/ ~PtsInRange(Q) \/ tol < 1 \/ tol > TMAX \/ 16 * n > DMAXDEN THEN "skip:range"
          ELSE LET cert == C2QCertPieces(C, Q, t.eC, t.eQ, tol)
                   bad == C2QBadIn(C, Q, t.eC, t.eQ, tol, (1..n) \ cert)
               IN IF bad # {} THEN "tol:" \o (CHOOSE b \in bad : TRUE)[3]
                  ELSE IF cert = 1..n THEN "ok:cert" ELSE "ok"

(* interned (exact) values that must be identical: the cubic returned unchanged by
   all_quadratic=False, pass-through pen operations *)
JSame(t) == IF t.a = t.b THEN "ok" ELSE "same:" \o t.what

(* ---- generic chain pair ---- *)
RECURSIVE Pieces(_, _, _)
Pieces(segs, i, acc) ==
  IF i > Len(segs) THEN acc
  ELSE LET P == Dbl(segs[i].p)
       IN Pieces(segs, i + 1, acc \o (IF segs[i].t = "q" THEN SplinePieces(P) ELSE <<P>>))

JPath(t) ==
  IF t.fin # 1 THEN "finite"
  ELSE IF t.ends[1] # t.ends[3] \/ t.ends[2] # t.ends[4] THEN "endpoints"
  ELSE LET A == Pieces(t.A, 1, <<>>) B == Pieces(t.B, 1, <<>>) tol == 2 * t.tol
       IN IF (\E i \in 1..Len(A) : ~PtsInRange(A[i])) \/ (\E i \in 1..Len(B) : ~PtsInRange(B[i]))
             \/ tol < 1 \/ tol > TMAX THEN "skip:range"
          ELSE IF ~Chained(B) THEN "path:output-not-connected"
          ELSE IF PathOff(B, A, t.eB, t.eA, tol) # {} THEN "tol:output-point-off-input"
          ELSE IF PathOff(A, B, t.eA, t.eB, tol) # {} THEN "tol:input-point-off-output"
          ELSE "ok"

(* masters converted together: same segment types and same number of points everywhere *)
JSameN(t) == IF AllEq(t.ns) THEN "ok" ELSE "SameN"

(* valid input must be converted or refused with ApproxNotFoundError (recorded as a "raise"
   of the protocol); any other exception escaping the code under test is a failure *)
JExc(t) == "exception:" \o t.exc

Judge(t) ==
  CASE t.k = "proto" -> JProto(t)
    [] t.k = "exc" -> JExc(t)
    [] t.k = "c2q" -> JC2Q(t)
    [] t.k = "same" -> JSame(t)
    [] t.k = "path" -> JPath(t)
    [] t.k = "samen" -> JSameN(t)
    [] OTHER -> "malformed:kind"

Init == tid \in 1..NTraces /\ verdict = "pending"
Next == verdict = "pending" /\ verdict' = Judge(Traces[tid]) /\ UNCHANGED tid
Report == /\ (verdict \notin {"pending", "ok", "ok:cert"}) => Reject(tid, verdict)
          /\ verdict = "ok:cert" => PrintT(<<"CERT", tid>>)
=============================================================================
