----------------------------- MODULE Trace_C14 -----------------------------
(* C14 judge.  One trace = one outline (a recorded sequence of pen calls) together with
   what was recorded downstream of the real fontTools adapters it was passed through:

     t.k  : K, coordinates are integers in units of 1/K
     t.s  : sequences of calls (PenProto encoding); t.s[i] is a segment-pen or point-pen stream
     t.r  : runs <<adapter, in, out, parameters...>> with indices into t.s

   The harness only drives the code and records; every accept/reject decision is taken
   here by evaluating the contracts of PenProto on the recorded calls.  Clauses named
   "malformed:*" say that the harness broke the trace format or left the modelled domain
   (machinery failure, never a verdict about fontTools).                                 *)
EXTENDS TraceIO, PenProto

VARIABLES tid, verdict
vars == <<tid, verdict>>

RAW == 1  S2P == 2  P2S == 3  AFF == 4  RND == 5  REV == 6  REVREV == 7
TT == 8  T2 == 9  SVG == 10  MEAS == 11  DECOMP == 12  AREANEG == 13

Name(a) == CASE a = RAW -> "passthru" [] a = S2P -> "seg2pt" [] a = P2S -> "pt2seg" [] a = AFF -> "transform"
             [] a = RND -> "round" [] a = REV -> "reverse" [] a = REVREV -> "reverse2" [] a = TT -> "ttglyph"
             [] a = T2 -> "t2charstring" [] a = SVG -> "svgpath" [] a = MEAS -> "measure" [] a = DECOMP -> "decompose"
             [] a = AREANEG -> "areaneg" [] OTHER -> "unknown"

Primes == <<32749, 32719, 32717, 32713>>
XMod(a, b, p) == LET u == ((a[1] % p) * (b[2] % p)) % p
                    v == ((b[1] % p) * (a[2] % p)) % p
                IN (u - v) % p
SegArea60Mod(s, p) ==
  CASE Len(s) = 2 -> (30 * XMod(s[1], s[2], p)) % p
    [] Len(s) = 3 -> (10 * ((2 * XMod(s[1], s[2], p) + XMod(s[1], s[3], p) + 2 * XMod(s[2], s[3], p)) % p)) % p
    [] Len(s) = 4 -> (3 * ((6 * XMod(s[1], s[2], p) + 3 * XMod(s[1], s[3], p) + XMod(s[1], s[4], p)
                            + 3 * XMod(s[2], s[3], p) + 3 * XMod(s[2], s[4], p) + 6 * XMod(s[3], s[4], p)) % p)) % p
RECURSIVE SumSegsMod(_, _, _, _)
SumSegsMod(ss, i, p, acc) == IF i > Len(ss) THEN acc ELSE SumSegsMod(ss, i + 1, p, (acc + SegArea60Mod(ss[i], p)) % p)
RECURSIVE AreaMod(_, _, _, _)
AreaMod(g, i, p, acc) ==
  IF i > Len(g) THEN acc
  ELSE IF g[i].k # "c" THEN AreaMod(g, i + 1, p, acc)
  ELSE AreaMod(g, i + 1, p, (SumSegsMod(g[i].segs, 1, p, acc) + 30 * XMod(EndOf(g[i]), g[i].st, p)) % p)
(* Area60(g) as its residues modulo four 15-bit primes: exact (CRT) for |60 A| < 5.7 * 10^17 *)
AreaResidues(g) == [j \in 1..4 |-> AreaMod(g, 1, Primes[j], 0)]
NegResidues(r) == [j \in 1..4 |-> (Primes[j] - r[j]) % Primes[j]]

MaxAbsCoord(g) == LET P == PointSet(g, FALSE) IN
                  IF P = {} THEN 0 ELSE SetMax({Abs(p[1]) : p \in P} \cup {Abs(p[2]) : p \in P})

HasComps(items) == \E i \in 1..Len(items) : items[i].k = "g"
AllOnFirst(items) == \A i \in 1..Len(items) : (items[i].k = "c" /\ items[i].cl) => FirstOn(items[i].pts) = 1

(* Named root cause of a finding on the unchanged tree (findings/C14/ttglyphpen-offcurve-contour-drops-point).
   TTGlyphPen.closePath removes the last point of a contour when it coincides with the first one -- meant for a
   closing lineTo / curve end that duplicates the moveTo point -- also when both are OFF-curve points of a contour
   without on-curve point, where the duplicate is a control point of the curve.  CutDupOff is what that does to an
   outline; a TrueType result that is wrong but equals the geometry of CutDupOff(input) is reported under the
   root-cause clause, anything else under "geometry".  A correct result is accepted either way.              *)
CutDupOffItem(it) ==
  IF FreeStart(it) /\ Len(it.pts) >= 2 /\ XY(it.pts[Len(it.pts)]) = XY(it.pts[1])
  THEN Contour(TRUE, SubSeq(it.pts, 1, Len(it.pts) - 1)) ELSE it
CutDupOff(items) == [i \in 1..Len(items) |-> CutDupOffItem(items[i])]

OK == <<"ok", "">>
(* equal as bags of contours, closed contours compared up to their start point *)
SameBag(ga, gb) == /\ Len(ga) = Len(gb)
                   /\ \A i \in 1..Len(ga) : Cardinality({j \in 1..Len(gb) : SameCyclic(ga[i], gb[j])})
                                             = Cardinality({j \in 1..Len(ga) : SameCyclic(ga[i], ga[j])})
(* verdict of one run: OK or <<adapter, clause>> (always a tuple: TLC cannot compare a string with a tuple) *)
RunVerdict(t, run, sh) ==
  LET a == run[1]
      K == t.k
      si == sh[run[2]]
      R(c) == <<Name(a), c>>
  IN
  IF ~si.ok THEN R("malformed:input-protocol")
  ELSE IF a = MEAS THEN
    (* <<MEAS, in, gs, hasBox, cb1..cb4, bb1..bb4, S, hasArea, r1..r4>> : ControlBoundsPen box in 1/K
       units, BoundsPen box in 1/(K S) units rounded, AreaPen value * 60 K^2 as residues *)
    LET items == IF run[3] = 0 THEN si.items ELSE Flatten(si.items, 1, [x \in {1} |-> sh[run[3]].items], FALSE)
        shp == Good(items)
    IN IF ~Exact(shp) THEN R("malformed:scale")
       ELSE LET g == Geom(shp)
                cb == ControlBox(g)
                S == run[13]
                mcb == IF run[4] = 1 THEN <<run[5], run[6], run[7], run[8]>> ELSE <<>>
                mbb == IF run[4] = 1 THEN <<run[9], run[10], run[11], run[12]>> ELSE <<>>
            IN IF mcb # cb THEN R("controlbounds")
               ELSE IF cb = <<>> THEN OK
               ELSE IF ~BoxIn(mbb, Scale4(cb, S), 1) THEN R("bounds-outside-controlbounds")
               ELSE IF ~BoxIn(Scale4(OnCurveBox(g), S), mbb, 1) THEN R("bounds-miss-oncurve-point")
               ELSE IF ~BoxIn(Scale4(BoxOf(MidCurveSet8(g)), S), Scale4(mbb, 8), 8) THEN R("bounds-miss-curve-point")
               ELSE IF OnlyLines(g) /\ ~BoxIn(mbb, Scale4(OnCurveBox(g), S), 1) THEN R("bounds-lines")
               ELSE IF NoCubics(g) /\ MaxAbsCoord(g) <= 1200 /\
                       ~(/\ IsMinOf(mbb[1], AxisValues(g, 1), S, 1) /\ IsMinOf(mbb[2], AxisValues(g, 2), S, 1)
                         /\ IsMaxOf(mbb[3], AxisValues(g, 1), S, 1) /\ IsMaxOf(mbb[4], AxisValues(g, 2), S, 1))
                    THEN R("bounds-quadratic-extremum")
               ELSE IF run[14] = 1 /\ <<run[15], run[16], run[17], run[18]>> # AreaResidues(g) THEN R("area")
               ELSE OK
  ELSE IF a = AREANEG THEN
    (* <<AREANEG, in, out, r1..r4, q1..q4>>: AreaPen of in and of the reversed outline out *)
    IF <<run[8], run[9], run[10], run[11]>> # NegResidues(<<run[4], run[5], run[6], run[7]>>) THEN R("area-not-negated")
    ELSE OK
  ELSE
  LET so == sh[run[3]] IN
  IF ~so.ok THEN R("output-protocol")
  ELSE IF a = RAW THEN (IF t.s[run[3]] = t.s[run[2]] THEN OK ELSE R("calls"))
  ELSE IF a = S2P THEN (IF so.items = si.items THEN OK ELSE R("structure"))
  ELSE IF a = P2S THEN (IF so.items = NormP2S(si.items) THEN OK ELSE R("structure"))
  ELSE IF a = AFF THEN
    LET m == <<run[4], run[5], run[6], run[7], run[8], run[9]>> IN
    IF t.s[run[3]] = AffineCalls(t.s[run[2]], m) THEN OK ELSE R("calls")
  ELSE IF a = RND THEN (IF t.s[run[3]] = RoundCalls(t.s[run[2]], K) THEN OK ELSE R("calls"))
  ELSE IF a = REV THEN
    IF Exact(si) /\ ~Exact(so) THEN R("geometry-offgrid")
    ELSE IF Exact(si) /\ ~SameUpToStart(GeoPlain(Geom(so)), GeoPlain(RevGeom(Geom(si)))) THEN R("geometry")
    ELSE IF Exact(si) /\ AllOnFirst(si.items) /\ GeoPlain(Geom(so)) # GeoPlain(RevGeom(Geom(si))) THEN R("start-point")
    ELSE IF NormSingle(so.items) # NormSingle(RevShape(si.items)) THEN R("structure")
    ELSE OK
  ELSE IF a = REVREV THEN (IF NormSingle(so.items) = NormSingle(si.items) THEN OK ELSE R("involution"))
  ELSE IF a = DECOMP THEN
    (* <<DECOMP, in, out, gs, reverseFlipped>> *)
    LET want == Flatten(si.items, 1, [x \in {1} |-> sh[run[4]].items], run[5] = 1) IN
    IF Exact(Good(want)) /\ Exact(so) /\ GeoPlain(Geom(so)) # GeoPlain(Geom(Good(want))) THEN R("geometry")
    ELSE IF NormSingle(so.items) # NormSingle(want) THEN R("structure")
    ELSE OK
  ELSE IF a \in {TT, T2, SVG} THEN
    (* <<a, in, out, flag, gs>>; gs = 0 or the index of the base glyph of component 1 *)
    (* a TrueType glyph keeps its components when nothing else is drawn (lone points are dropped by the
       builder), otherwise it is decomposed: the recorded output tells which; it is compared against the
       input as is, or against the decomposed input *)
    LET items0 == IF run[5] = 0 \/ (a = TT /\ HasComps(so.items)) THEN si.items
                  ELSE Flatten(si.items, 1, [x \in {1} |-> sh[run[5]].items], FALSE)
        items == IF a = T2 THEN RoundShape(items0, K) ELSE items0
        shp == Good(items)
    IN IF ~Exact(shp) THEN R("malformed:scale")
       ELSE IF ~Exact(so) THEN R("geometry-offgrid")
       ELSE LET gi == Geom(shp)  go == Geom(so) IN
         IF a = TT THEN
            (* flag: 0 = start points kept (free only for contours without on-curve point, PenProto.FreeStart),
               1 = start point free (dropImpliedOnCurves may drop it), 2 = contour order free
               (a glyph with contours and components is decomposed, components last) *)
            LET same(x) == IF run[4] >= 2 THEN SameBag(GeoFill(go), GeoFill(x)) ELSE SameUpToStart(GeoFill(go), GeoFill(x))
                cut == Good(CutDupOff(items))
            IN IF same(gi) THEN (IF run[4] = 0 /\ ~SameFillStart(items, so.items) THEN R("start-point") ELSE OK)
               ELSE IF cut.items # items /\ Exact(cut) /\ same(Geom(cut)) THEN R("offcurve-contour-loses-point-equal-to-first")
               ELSE R("geometry")
         ELSE IF a = T2 THEN
            (IF run[4] = 1 THEN (IF GeoT2(go) = GeoT2(gi) THEN OK ELSE R("geometry-specialized"))
             ELSE IF GeoFill(go) = GeoFill(gi) THEN OK ELSE R("geometry"))
         ELSE (IF GeoPlain(go) = GeoPlain(gi) THEN OK ELSE R("geometry"))
  ELSE R("malformed:unknown-adapter")

(* every failing run is reported: the verdict is a sequence of <<adapter, clause, run index>> *)
RECURSIVE AllBad(_, _, _)
AllBad(t, i, sh) ==
  IF i > Len(t.r) THEN <<>>
  ELSE LET v == RunVerdict(t, t.r[i], sh) IN
       (IF v = OK THEN <<>> ELSE <<<<v[1], v[2], i>>>>) \o AllBad(t, i + 1, sh)

Pending == <<<<"pending", "", 0>>>>
Accepted == <<<<"ok", "", 0>>>>
Judge(t) == LET sh == [i \in 1..Len(t.s) |-> ShapeOf(t.s[i])]
                bad == AllBad(t, 1, sh)
            IN IF bad = <<>> THEN Accepted ELSE bad

Init == tid \in 1..NTraces /\ verdict = Pending
Next == verdict = Pending /\ verdict' = Judge(Traces[tid]) /\ UNCHANGED tid
Report == (verdict \notin {Pending, Accepted}) => \A i \in 1..Len(verdict) : Reject(tid, verdict[i])
=============================================================================
