----------------------------- MODULE Trace_C15 -----------------------------
(* C15: every low-level encoder and its decoder are mutually inverse.
   One judged case per trace: the harness calls the real encoder on a value, logs
   the value, the emitted bytes/text and what the real decoder returned; TLC decodes
   the bytes with the specification's decoder (module Codec) and compares.          *)
EXTENDS TraceIO, Codec

VARIABLES tid, verdict
vars == <<tid, verdict>>

Codes(str) == str   \* strings travel as sequences of character codes

MonthNames == << <<74,97,110>>, <<70,101,98>>, <<77,97,114>>, <<65,112,114>>, <<77,97,121>>, <<74,117,110>>,
                 <<74,117,108>>, <<65,117,103>>, <<83,101,112>>, <<79,99,116>>, <<78,111,118>>, <<68,101,99>> >>
DayNames == << <<77,111,110>>, <<84,117,101>>, <<87,101,100>>, <<84,104,117>>, <<70,114,105>>, <<83,97,116>>, <<83,117,110>> >>
Num2(s, i) == (IF s[i] = 32 THEN 0 ELSE Digit(s[i])) * 10 + Digit(s[i + 1])

JInt(t) ==
  LET r == OperandInt(t.b, t.fmt) IN
  IF ~r[1] THEN "int:undecodable"
  ELSE IF r[4] # Len(t.b) THEN "int:length"
  ELSE IF r[2] # "int" THEN "int:kind"
  ELSE IF r[3] # t.v THEN "int:value"
  ELSE IF t.dec # t.v THEN "int:real-decoder"
  ELSE "ok"

JFixed(t) ==
  LET r == OperandInt(t.b, "t2") IN
  IF ~r[1] \/ r[4] # Len(t.b) THEN "fixed:undecodable"
  ELSE IF r[2] = "fixed" /\ r[3] # t.fx THEN "fixed:value"
  ELSE IF r[2] = "int" /\ (Abs(r[3]) > 32768 \/ r[3] * 65536 # t.fx) THEN "fixed:intvalue"
  ELSE IF t.decfx # t.fx THEN "fixed:real-decoder"
  ELSE "ok"

JReal(t) ==
  LET r == RealDecode(t.b) IN
  IF ~r.ok THEN "real:undecodable"
  ELSE IF r.used # Len(t.b) THEN "real:length"
  ELSE IF r.m # t.m \/ r.e # t.e THEN "real:value"
  ELSE IF t.decm # t.m \/ t.dece # t.e THEN "real:real-decoder"
  ELSE "ok"

JB128(t) ==
  LET r == Base128Decode(t.b) IN
  IF ~r[1] THEN "b128:undecodable"
  ELSE IF r[4] # Len(t.b) THEN "b128:length"
  ELSE IF r[2] # t.hi \/ r[3] # t.lo THEN "b128:value"
  ELSE IF t.dhi # t.hi \/ t.dlo # t.lo THEN "b128:real-decoder"
  ELSE "ok"

JU255(t) ==
  LET r == U255Decode(t.b) IN
  IF ~r[1] \/ r[3] # Len(t.b) THEN "u255:undecodable"
  ELSE IF r[2] # t.v THEN "u255:value"
  ELSE IF t.dec # t.v THEN "u255:real-decoder"
  ELSE "ok"

JU32Var(t) ==
  LET r == U32VarDecode(t.b) IN
  IF ~r[1] \/ r[4] # Len(t.b) THEN "u32var:undecodable"
  ELSE IF r[2] # t.hi \/ r[3] # t.lo THEN "u32var:value"
  ELSE IF t.dhi # t.hi \/ t.dlo # t.lo THEN "u32var:real-decoder"
  ELSE "ok"

JPoints(t) ==
  LET r == PackedPointsDecode(t.b) IN
  IF ~r[1] THEN "points:undecodable"
  ELSE IF r[3] # Len(t.b) THEN "points:length"
  ELSE IF r[2] # t.pts THEN "points:value"
  ELSE IF t.dec # t.pts THEN "points:real-decoder"
  ELSE "ok"

JDeltas(t) ==
  LET r == PackedDeltasDecode(t.b) IN
  IF ~r[1] THEN "deltas:undecodable"
  ELSE IF r[2] # t.ds THEN "deltas:value"
  ELSE IF t.dec # t.ds THEN "deltas:real-decoder"
  ELSE "ok"

JEexec(t) ==
  LET r == Decrypt(t.c, 1, t.r, <<>>) IN
  IF Len(t.c) # Len(t.p) THEN "eexec:length"
  ELSE IF r[1] # t.p THEN "eexec:plaintext"
  ELSE IF r[2] # t.r2 THEN "eexec:key"
  ELSE IF t.dp # t.p \/ t.dr # t.r2 THEN "eexec:real-decoder"
  ELSE "ok"

JFixStr(t) ==
  LET v == FixedStrOK(t.fx, t.p, t.s) IN
  IF v # "ok" THEN "fixstr:" \o v
  ELSE IF t.back # t.fx THEN "fixstr:real-decoder"
  ELSE "ok"

JOtRound(t) == IF OtRound(t.n, t.d) = t.v THEN "ok" ELSE "otround:value"

JTime(t) ==
  LET s == t.s IN
  IF Len(s) # 24 THEN "time:format"
  ELSE LET mi == {i \in 1..12 : MonthNames[i] = SubSeq(s, 5, 7)}
           di == {i \in 1..7 : DayNames[i] = SubSeq(s, 1, 3)}
       IN IF mi = {} \/ di = {} THEN "time:names"
          ELSE LET m == CHOOSE i \in mi : TRUE
                   wd == (CHOOSE i \in di : TRUE) - 1
                   d == Num2(s, 9)
                   y == ParseNat(s, 21, 24, 0)
                   secs == Num2(s, 12) * 3600 + Num2(s, 15) * 60 + Num2(s, 18)
                   days == Days1904(y, m, d)
               IN IF days # t.days \/ secs # t.secs THEN "time:value"
                  ELSE IF Weekday1904(days) # wd THEN "time:weekday"
                  ELSE IF t.bdays # t.days \/ t.bsecs # t.secs THEN "time:real-decoder"
                  ELSE "ok"

JTag(t) ==
  LET r == IdentToTag(t.ident) IN
  IF ~LegalIdent(t.ident) THEN "tag:illegal-identifier"
  ELSE IF ~r[1] THEN "tag:undecodable"
  ELSE IF r[2] # t.tag THEN "tag:value"
  ELSE IF t.back # t.tag THEN "tag:real-decoder"
  ELSE "ok"

JXmlTag(t) ==
  (* documented scheme: "OS/2" <-> "OS_2"; identifier-like tags are written stripped
     (1..4 characters); everything else through the identifier form of all four
     characters (8 characters, or 9 with the leading "_" that protects a digit) *)
  LET x == t.xml
      dec == IF x = <<79, 83, 95, 50>> THEN <<TRUE, <<79, 83, 47, 50>>>>
             ELSE IF Len(x) = 8 \/ (Len(x) = 9 /\ x[1] = 95) THEN IdentToTag(x)
             ELSE IF Len(x) <= 4 /\ Len(x) >= 1 THEN <<TRUE, PadTag(x)>>
             ELSE <<FALSE, <<>>>>
      legal == Len(x) > 0 /\ ~IsDigit(x[1]) /\ \A i \in 1..Len(x) : IsIdentChar(x[i])
  IN IF ~legal THEN "xmltag:illegal-name"
     ELSE IF ~dec[1] THEN "xmltag:undecodable"
     ELSE IF dec[2] # t.tag THEN "xmltag:value"
     ELSE IF t.back # t.tag THEN "xmltag:real-decoder"
     ELSE "ok"

JSbs(t) ==
  LET r == SparseBitSetDecode(t.b) IN
  IF ~r[1] THEN "sbs:undecodable"
  ELSE IF r[2] # {t.vals[i] : i \in 1..Len(t.vals)} THEN "sbs:value"
  ELSE IF t.dec # t.vals THEN "sbs:real-decoder"
  ELSE "ok"

JStruct(t) ==
  LET r == StructDecode(t.b, 1, t.fmt, <<>>) IN
  IF ~r[1] THEN "struct:length"
  ELSE IF r[2] # t.vals THEN "struct:value"
  ELSE IF t.dec # t.vals THEN "struct:real-decoder"
  ELSE "ok"

JHex(t) ==
  LET r == HexDecode(t.s, 1, <<>>) IN
  IF ~r[1] THEN "hex:undecodable"
  ELSE IF r[2] # t.b THEN "hex:value"
  ELSE IF t.back # t.b THEN "hex:real-decoder"
  ELSE "ok"

JAgl(t) ==
  (* glyph names of the forms uniXXXX / uXXXXXX decode to their code point (AGL spec) *)
  LET n == t.name
      hex == IF Len(n) = 7 /\ SubSeq(n, 1, 3) = <<117, 110, 105>> THEN SubSeq(n, 4, 7)
             ELSE IF Len(n) >= 5 /\ Len(n) <= 7 /\ n[1] = 117 THEN SubSeq(n, 2, Len(n)) ELSE <<>>
      RECURSIVE hv(_, _)
      hv(i, acc) == IF i > Len(hex) THEN acc ELSE hv(i + 1, acc * 16 + HexVal(hex[i]))
  IN IF hex = <<>> THEN (IF t.back = t.u THEN "ok" ELSE "agl:table")
     ELSE IF hv(1, 0) # t.u THEN "agl:value"
     ELSE IF t.back # t.u THEN "agl:real-decoder"
     ELSE "ok"

Judge(t) ==
  CASE t.k = "int" -> JInt(t)
    [] t.k = "fixed" -> JFixed(t)
    [] t.k = "real" -> JReal(t)
    [] t.k = "b128" -> JB128(t)
    [] t.k = "u255" -> JU255(t)
    [] t.k = "u32var" -> JU32Var(t)
    [] t.k = "points" -> JPoints(t)
    [] t.k = "deltas" -> JDeltas(t)
    [] t.k = "eexec" -> JEexec(t)
    [] t.k = "fixstr" -> JFixStr(t)
    [] t.k = "otround" -> JOtRound(t)
    [] t.k = "time" -> JTime(t)
    [] t.k = "tag" -> JTag(t)
    [] t.k = "xmltag" -> JXmlTag(t)
    [] t.k = "sbs" -> JSbs(t)
    [] t.k = "struct" -> JStruct(t)
    [] t.k = "hex" -> JHex(t)
    [] t.k = "agl" -> JAgl(t)
    \* the real encoder raised on a value of the codec's domain, or the real decoder raised on the encoder's output
    [] t.k = "raised" -> "raised-in-domain:" \o t.codec
    [] OTHER -> "unknown-kind"

Init == tid \in 1..NTraces /\ verdict = "pending"
Next == verdict = "pending" /\ verdict' = Judge(Traces[tid]) /\ UNCHANGED tid
Report == (verdict \notin {"pending", "ok"}) => Reject(tid, verdict)
=============================================================================
