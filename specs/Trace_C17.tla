----------------------------- MODULE Trace_C17 -----------------------------
(* C17 judge.  One trace = one real font transformed by the real fontTools function, recorded as
   projections of the two SAVED files (before = untransformed twin, after = transformed):

   k = "reorder"  (reorderGlyphs)            glyph names are numbered 1..n by their OLD glyph id
     new, want    the new glyph order (name numbers per new gid); fileorder = names carried by the saved file
     nf, nb, na   name-keyed view: field names; per name the interned field values before / after
     tb           [key, before, after] name-keyed projections of whole tables (lookups with glyph names, cmap, ...)
     gf, gb, ga   by-GID observations of independent readers (HarfBuzz, raw sfnt reader): rows indexed by the
                  old resp. new glyph id; glyph ids inside a value were translated to names by that file's own order
     sorted       every glyph-id sequence of the saved file that OpenType requires strictly ascending
     nom, sh      HarfBuzz nominal glyphs (by name) and shaping results (by name) before / after
     rawgid       tables that address glyphs by raw glyph id and that the library does not decode to names
   k = "scale"    (scale_upem)
     ub, ua, want units per em before / after / requested; num, den = want/ub reduced (checked here)
     keys         the names of the tables / observations; the rows below are stored in columns *k (index into keys),
                  *b (before), *a (after):
     tk, tb, ta   interned skeletons of each table: everything that is NOT a design-unit number
     fk, fb, fa   CFF FontMatrix * upem * 10^6 (must stay put; 2 units of conversion slack)
     hk, hb, ha   equality-only HarfBuzz observations (glyph sequences of shaping results, outline structure, layers)
   k = "nums"     the design-unit numbers of the scale cases: num, den (the factor), columns vb, va, h: "the stored number
                  vb became va, and ScaleUpem!Within(k, vb, va, h) is demanded".  The same fact occurs in many cases
                  (hundreds of corpus fonts share outlines), so the harness sends every DISTINCT fact once and joins the
                  verdicts <<"bad" | "overflow", position>> back to the cases (clauses "scaled" / "hb-scaled" with the
                  table name, "skip:overflow"); the arithmetic is done here only.
   k = "raised"   op ("reorder" / "scale"), exc (exception type), ub, want: the transformation or the save after it raised

   The verdict is the SET of failing clauses <<clause, argument>>; clauses starting with "skip:" mark a
   case outside the modelled domain.  Operators come from Reorder.tla and ScaleUpem.tla.           *)
EXTENDS TraceIO, Reorder, ScaleUpem

VARIABLES tid, verdict
vars == <<tid, verdict>>

Col(rows, fi) == [i \in 1..Len(rows) |-> rows[i][fi]]

JReorder(t) ==
  LET n == t.n
      ids == [i \in 1..n |-> i]
  IN IF Len(t.new) # n \/ Len(t.nb) # n \/ Len(t.na) # n \/ Len(t.gb) # n \/ Len(t.ga) # n THEN {<<"order", "glyph-count">>}
     ELSE IF ~IsPermOf(t.new, ids) THEN {<<"order", "not-a-permutation">>}
     ELSE IF t.unsortedb # <<>> THEN {<<"skip:unsorted-coverage-in-input", t.unsortedb[1]>>}
     ELSE
       (* order' = perm: the names the file carries are the requested order, .notdef stays first *)
       (IF t.new # t.want \/ t.new[1] # 1 THEN {<<"order", "not-the-requested-order">>} ELSE {})
       \cup (IF t.carried /\ t.fileorder # t.want THEN {<<"order", "names-in-file">>} ELSE {})
       (* NameView: every field of every glyph name unchanged *)
       \cup {<<"nameview", t.nf[fi]>> : fi \in {fi \in 1..Len(t.nf) : \E i \in 1..n : t.nb[i][fi] # t.na[i][fi]}}
       \cup {<<"table", r[1]>> : r \in {r \in Range(t.tb) : r[2] # r[3]}}
       (* every gid-indexed array permuted consistently (independent readers) *)
       \cup {<<"bygid", t.gf[fi]>> : fi \in {fi \in 1..Len(t.gf) : ~PermutedArrayId(Col(t.gb, fi), Col(t.ga, fi), t.new)}}
       (* Coverage (and the other gid-ordered arrays) sorted by NEW gid *)
       \cup {<<"sorted", r[1]>> : r \in {r \in Range(t.sorted) : ~StrictlyAscending(r[2])}}
       \cup (IF \E r \in Range(t.nom) : r[2] # r[3] THEN {<<"cmap", "hb-nominal-glyph">>} ELSE {})
       \cup (IF \E r \in Range(t.sh) : r[2] # r[3] THEN {<<"shape", "hb">>} ELSE {})
       (* NoDangling: a table addressing glyphs by raw id, left as it was, while one of those ids now names another glyph *)
       \cup {<<"nodangling", r[1]>> : r \in {r \in Range(t.rawgid) : r[2] /\ \E i \in 1..Len(r[3]) : t.new[r[3][i]] # r[3][i]}}

NumOK(k, v, v2, h) == IF ~Fits(k, v, v2, h) THEN "overflow" ELSE IF Within(k, v, v2, h) THEN "ok" ELSE "bad"

JScale(t) ==
  IF t.ub <= 0 \/ t.want <= 0 THEN {<<"upem", "non-positive">>}
  ELSE
    (IF t.ua # t.want THEN {<<"upem", "head.unitsPerEm">>} ELSE {})
    (* num/den is the factor under which this case's numbers were filed as "nums" facts *)
    \cup (IF Factor(t.ub, t.want) # <<t.num, t.den>> THEN {<<"upem", "factor-of-the-number-facts">>} ELSE {})
    \cup {<<"nothingelse", t.keys[t.tk[i]]>> : i \in {i \in 1..Len(t.tk) : t.tb[i] # t.ta[i]}}
    \cup {<<"nothingelse", t.keys[t.fk[i]]>> : i \in {i \in 1..Len(t.fk) : SAbs(t.fb[i] - t.fa[i]) > 2}}
    \cup {<<"hb-nothingelse", t.keys[t.hk[i]]>> : i \in {i \in 1..Len(t.hk) : t.hb[i] # t.ha[i]}}

JNums(t) ==
  LET k == <<t.num, t.den>> IN
  IF t.num <= 0 \/ t.den <= 0 \/ SGcd(t.num, t.den) # 1 \/ Len(t.va) # Len(t.vb) \/ Len(t.h) # Len(t.vb) THEN {<<"malformed", 0>>}
  ELSE {<<NumOK(k, t.vb[i], t.va[i], t.h[i]), i>> : i \in {i \in 1..Len(t.vb) : NumOK(k, t.vb[i], t.va[i], t.h[i]) # "ok"}}

(* the transformation raised an exception other than its own NotImplementedError (= declared unsupported, which
   the harness skips and counts) on a font that the library loads and saves untransformed.  Renumbering cannot make
   any stored field overflow, neither can scaling DOWN (every design-unit quantity shrinks in magnitude): there the
   transformation had a representable result to produce and failed.  Scaling UP may overflow a 16-bit field of the
   format: outside the modelled domain, skipped and counted. *)
JRaised(t) ==
  IF t.op = "scale" /\ t.want > t.ub THEN {<<"skip:raised-while-scaling-up", t.exc>>} ELSE {<<"raised", t.exc>>}

Judge(t) ==
  CASE t.k = "reorder" -> JReorder(t)
    [] t.k = "scale" -> JScale(t)
    [] t.k = "raised" -> JRaised(t)
    [] t.k = "nums" -> JNums(t)
    [] OTHER -> {<<"unknown-kind", t.k>>}

Pending == {<<"pending", "">>}
Init == tid \in 1..NTraces /\ verdict = Pending
Next == verdict = Pending /\ verdict' = Judge(Traces[tid]) /\ UNCHANGED tid
Report == verdict # Pending => \A c \in verdict : PrintT(<<"REJ", tid, c[1], c[2]>>)
=============================================================================
