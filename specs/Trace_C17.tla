----------------------------- MODULE Trace_C17 -----------------------------
(* C17 judge.  One trace = one real font transformed by the real fontTools function, recorded as
   projections of the two SAVED files (before = untransformed twin, after = transformed):

   k = "reorder"  (reorderGlyphs)            glyph names are numbered 1..n by their OLD glyph id
     new, want    the new glyph order (name numbers per new gid); fileorder = names carried by the saved file
     nf, nb, na   name-keyed view: field names; per name the interned field values before / after
     tb           [key, before, after] name-keyed projections of whole tables (lookups with glyph names, cmap, ...)
     gf, gb, ga   by-GID observations of independent readers (HarfBuzz, raw sfnt reader): rows indexed by the
                  old resp. new glyph id; glyph ids inside a value were translated to names by that file's own order
     sorted       every glyph-id sequence of the saved file that OpenType requires strictly ascending
     nom, sh      HarfBuzz nominal glyphs (by name) and shaping results (by name) before / after
     rawgid       tables that address glyphs by raw glyph id and that the library does not decode to names
   k = "scale"    (scale_upem)
     ub, ua, want units per em before / after / requested
     tabs         [key, before, after] interned skeletons: everything that is NOT a design-unit number
     items        [key, before, after, h] design-unit numbers with their bound h/2 (ScaleUpem!Within)
     fm           [key, before, after] CFF FontMatrix * upem * 10^6 (must stay put; 2 units of conversion slack)
     hbt, hbi     the same two kinds of rows from HarfBuzz observations
   k = "raised"   op ("reorder" / "scale"), exc (exception type), ub, want: the transformation or the save after it raised

   The verdict is the SET of failing clauses <<clause, argument>>; clauses starting with "skip:" mark a
   case outside the modelled domain.  Operators come from Reorder.tla and ScaleUpem.tla.           *)
EXTENDS TraceIO, Reorder, ScaleUpem

VARIABLES tid, verdict
vars == <<tid, verdict>>

Col(rows, fi) == [i \in 1..Len(rows) |-> rows[i][fi]]

JReorder(t) ==
  LET n == t.n
      ids == [i \in 1..n |-> i]
  IN IF Len(t.new) # n \/ Len(t.nb) # n \/ Len(t.na) # n \/ Len(t.gb) # n \/ Len(t.ga) # n THEN {<<"order", "glyph-count">>}
     ELSE IF ~IsPermOf(t.new, ids) THEN {<<"order", "not-a-permutation">>}
     ELSE IF t.unsortedb # <<>> THEN {<<"skip:unsorted-coverage-in-input", t.unsortedb[1]>>}
     ELSE
       (* order' = perm: the names the file carries are the requested order, .notdef stays first *)
       (IF t.new # t.want \/ t.new[1] # 1 THEN {<<"order", "not-the-requested-order">>} ELSE {})
       \cup (IF t.carried /\ t.fileorder # t.want THEN {<<"order", "names-in-file">>} ELSE {})
       (* NameView: every field of every glyph name unchanged *)
       \cup {<<"nameview", t.nf[fi]>> : fi \in {fi \in 1..Len(t.nf) : \E i \in 1..n : t.nb[i][fi] # t.na[i][fi]}}
       \cup {<<"table", r[1]>> : r \in {r \in Range(t.tb) : r[2] # r[3]}}
       (* every gid-indexed array permuted consistently (independent readers) *)
       \cup {<<"bygid", t.gf[fi]>> : fi \in {fi \in 1..Len(t.gf) : ~PermutedArrayId(Col(t.gb, fi), Col(t.ga, fi), t.new)}}
       (* Coverage (and the other gid-ordered arrays) sorted by NEW gid *)
       \cup {<<"sorted", r[1]>> : r \in {r \in Range(t.sorted) : ~StrictlyAscending(r[2])}}
       \cup (IF \E r \in Range(t.nom) : r[2] # r[3] THEN {<<"cmap", "hb-nominal-glyph">>} ELSE {})
       \cup (IF \E r \in Range(t.sh) : r[2] # r[3] THEN {<<"shape", "hb">>} ELSE {})
       (* NoDangling: a table addressing glyphs by raw id, left as it was, while one of those ids now names another glyph *)
       \cup {<<"nodangling", r[1]>> : r \in {r \in Range(t.rawgid) : r[2] /\ \E i \in 1..Len(r[3]) : t.new[r[3][i]] # r[3][i]}}

NumOK(k, r) == IF ~Fits(k, r[2], r[3], r[4]) THEN "overflow" ELSE IF Within(k, r[2], r[3], r[4]) THEN "ok" ELSE "bad"

JScale(t) ==
  LET k == Factor(t.ub, t.want) IN
  IF t.ub <= 0 \/ t.want <= 0 THEN {<<"upem", "non-positive">>}
  ELSE
    (IF t.ua # t.want THEN {<<"upem", "head.unitsPerEm">>} ELSE {})
    \cup {<<"nothingelse", r[1]>> : r \in {r \in Range(t.tabs) : r[2] # r[3]}}
    \cup {<<"scaled", r[1]>> : r \in {r \in Range(t.items) : NumOK(k, r) = "bad"}}
    \cup {<<"skip:overflow", r[1]>> : r \in {r \in Range(t.items) \cup Range(t.hbi) : NumOK(k, r) = "overflow"}}
    \cup {<<"nothingelse", r[1]>> : r \in {r \in Range(t.fm) : SAbs(r[2] - r[3]) > 2}}
    \cup {<<"hb-nothingelse", r[1]>> : r \in {r \in Range(t.hbt) : r[2] # r[3]}}
    \cup {<<"hb-scaled", r[1]>> : r \in {r \in Range(t.hbi) : NumOK(k, r) = "bad"}}

(* the transformation raised an exception other than its own NotImplementedError (= declared unsupported, which
   the harness skips and counts) on a font that the library loads and saves untransformed.  Renumbering cannot make
   any stored field overflow, neither can scaling DOWN (every design-unit quantity shrinks in magnitude): there the
   transformation had a representable result to produce and failed.  Scaling UP may overflow a 16-bit field of the
   format: outside the modelled domain, skipped and counted. *)
JRaised(t) ==
  IF t.op = "scale" /\ t.want > t.ub THEN {<<"skip:raised-while-scaling-up", t.exc>>} ELSE {<<"raised", t.exc>>}

Judge(t) ==
  CASE t.k = "reorder" -> JReorder(t)
    [] t.k = "scale" -> JScale(t)
    [] t.k = "raised" -> JRaised(t)
    [] OTHER -> {<<"unknown-kind", t.k>>}

Pending == {<<"pending", "">>}
Init == tid \in 1..NTraces /\ verdict = Pending
Next == verdict = Pending /\ verdict' = Judge(Traces[tid]) /\ UNCHANGED tid
Report == verdict # Pending => \A c \in verdict : PrintT(<<"REJ", tid, c[1], c[2]>>)
=============================================================================
