----------------------------- MODULE Trace_C18 -----------------------------
(* C18 judge.  One trace = one list of real font files merged by the REAL fontTools.merge.Merger().merge:

     fonts   the inputs, projected from the files given to the merger (abstract fonts of Merge.tla; for model cases
             with the otl_project layout L as well)
     m       the result: names (glyph order of the TTFont object the merger returned), maxp (its maxp.numGlyphs),
             and, re-read from the SAVED bytes: cmap, adv, out (outline identities interned together with the inputs'),
             fnames (glyph names carried by the file, read by HarfBuzz; <<>> if the file carries none),
             fmaxp (maxp.numGlyphs by the independent sfnt reader), hbn (HarfBuzz glyph count)
     raised  non-empty if the merger raised on a model case (the specification says the merge exists)
     ign     characters of the case that are default-ignorable (or U+25CC): never disambiguated
     shape   rows <<i, script, lang, text, HarfBuzz(input i alone), HarfBuzz(merged)>>, all feature tags on
     locl    rows <<i, char, script, lang, HarfBuzz(merged)>> with only 'locl' on
   HarfBuzz rows are <<glyph id (1-based), x advance, y advance, x offset, y offset>> in font units.
   pred    TRUE for model cases: TLC also computes Merge!MergeAll(fonts) and shapes with OTLSem on ITS layout;
           the real merged font must shape (HarfBuzz) as the specification's merged font does.

   The verdict is the SET of failing clauses <<clause, detail>>.  Clauses FirstWins, UniqueNames, DuplicateRule,
   DisjointShaping, Totals are the property; Tables / Stage are conformance of the code's stages with Merge.tla. *)
EXTENDS TraceIO, Merge

VARIABLES tid, verdict
vars == <<tid, verdict>>

JSys(F, fld) == {<<F[fld][k][1], F[fld][k][2]>> : k \in 1..Len(F[fld])}
JProbeSystems(F) ==      \* Merge!ProbeSystems on the recorded language-system lists
  IF ~F.hasgsub /\ ~F.hasgpos THEN {<<"DFLT", "dflt">>}
  ELSE {s \in JSys(F, "gsys") \cup JSys(F, "psys") :
          (F.hasgsub => s \in JSys(F, "gsys")) /\ (F.hasgpos => s \in JSys(F, "psys"))}

RowOK(r, n) == \A k \in 1..Len(r) : r[k][1] \in 1..n
(* HarfBuzz row -> OTLSem!Shape row (advance as an adjustment of the nominal advance) *)
Rel(M, r) == [k \in 1..Len(r) |-> <<r[k][1], r[k][2] - M.adv[r[k][1]], r[k][3], r[k][4], r[k][5]>>]

If(cond, clause) == IF cond THEN {clause} ELSE {}

JudgeMerged(t) ==
  LET Fs == t.fonts
      M == t.m
      ig == MRange(t.ign)
      nf == Len(Fs)
      X == MCtx(Fs)
      mc == CmapFn(M)
      tot == Total(Fs)
      ng == Len(M.out)
      totals ==
        If(Len(M.names) # tot, <<"Totals", "glyph-order-length">>)
        \cup If(M.maxp # tot, <<"Totals", "maxp.numGlyphs">>)
        \cup If(M.fmaxp # tot \/ M.hbn # tot \/ Len(M.adv) # tot \/ ng # tot, <<"Totals", "saved-font-glyph-count">>)
      unique ==
        If(~UniqueNames(M), <<"UniqueNames", "glyph-order">>)
        \cup If(Len(M.fnames) > 0 /\ Cardinality(MRange(M.fnames)) # Len(M.fnames), <<"UniqueNames", "names-in-file">>)
      firstwins ==
        If(\E c \in X.all : c \notin DOMAIN mc, <<"FirstWins", "character-lost">>)
        \cup If(\E c \in DOMAIN mc : c \notin X.all, <<"FirstWins", "character-invented">>)
        \cup If(\E c \in X.all \cap DOMAIN mc : ~FirstWinsAtX(Fs, X, M, mc, c), <<"FirstWins", "outline-or-advance">>)
      kept == If(~GlyphsKept(Fs, M), <<"Tables", "glyph-not-kept-in-font-order">>)
      dupkept ==
        If(\E i \in 1..nf : \E c \in DOMAIN X.cf[i] : X.first[c] < i /\ ~LaterGlyphKeptX(Fs, X, M, i, c),
           <<"DuplicateRule", "later-glyph-not-kept">>)
      loclbad(r) ==
        LET i == r[1]  c == r[2]  s == <<r[3], r[4]>>  res == r[5] IN
        /\ i \in 1..nf /\ c \in DOMAIN X.cf[i] /\ c \in DOMAIN mc
        /\ MustReachX(Fs, X, i, c, ig)
        /\ s \in NonDfltSystems(Fs[i]) /\ ExclusiveSys(Fs, i, s)
        /\ ~(/\ Len(res) = 1 /\ res[1][1] \in 1..ng
             /\ Ident(M, res[1][1]) = Ident(Fs[i], X.cf[i][c])
             /\ res[1][2] = Fs[i].adv[X.cf[i][c]])
      duprule == If(\E k \in 1..Len(t.locl) : loclbad(t.locl[k]), <<"DuplicateRule", "differing-duplicate-unreachable">>)
      disjoint == DisjointX(X)
      shapebad(r) ==
        LET i == r[1]  s == <<r[2], r[3]>>  txt == r[4] IN
        /\ i \in 1..nf /\ s \in JProbeSystems(Fs[i])
        /\ \A k \in 1..Len(txt) : txt[k] \in DOMAIN X.cf[i]
        /\ ~(RowOK(r[5], Len(Fs[i].out)) /\ RowOK(r[6], ng) /\ SameShaping(Fs[i], r[5], M, r[6]))
      (* an input whose own layout produces a glyph id beyond its glyph count is outside the domain *)
      outside(r) == r[1] \in 1..nf /\ ~RowOK(r[5], Len(Fs[r[1]].out))
      shaping == If(disjoint /\ \E k \in 1..Len(t.shape) : ~outside(t.shape[k]) /\ shapebad(t.shape[k]), <<"DisjointShaping", "hb">>)
                 \cup If(\E k \in 1..Len(t.shape) : outside(t.shape[k]), <<"skip:input-layout-produces-a-glyph-id-outside-the-font", "">>)
      stages ==
        If(~OrderRuleOK(FlatNames(Fs), M.names), <<"Stage", "mega-glyph-order">>)
        \cup If(mc # X.cm, <<"Stage", "mega-cmap">>)
        \cup If(Len(M.fnames) > 0 /\ M.fnames # M.names, <<"Stage", "names-in-file">>)
      pred ==
        IF ~t.pred THEN {}
        ELSE LET PM == MergeAll(Fs, ig, FALSE, "none")
                 pm == CmapFn(PM)
                 (* named shaper convention HBLatnFallback: when a table has neither the requested script nor DFLT,
                    HarfBuzz falls back to 'latn'; OTLSem does not -- such rows are not predicted *)
                 plain(sc) == \A tb \in {PM.L.gsub, PM.L.gpos} :
                                sc \in ScriptsOf(tb) \/ "DFLT" \in ScriptsOf(tb) \/ "latn" \notin ScriptsOf(tb)
                 offshape(r) ==
                   LET txt == r[4] IN
                   plain(r[2]) /\ (\A k \in 1..Len(txt) : txt[k] \in DOMAIN pm) /\ RowOK(r[6], ng) /\
                   Rel(M, r[6]) # Shape(PM.L, r[2], r[3], t.tags, 1, "hb", [k \in 1..Len(txt) |-> pm[txt[k]]])
                 offlocl(r) ==
                   plain(r[3]) /\ r[2] \in DOMAIN pm /\ RowOK(r[5], ng) /\
                   Rel(M, r[5]) # Shape(PM.L, r[3], r[4], <<"locl">>, 1, "hb", <<pm[r[2]]>>)
             IN If(PM.names # M.names \/ PM.adv # M.adv \/ PM.out # M.out \/ PM.cmap # M.cmap \/ PM.maxp # M.maxp,
                   <<"Stage", "predicted-tables">>)
                \cup If(tot = ng /\ \E k \in 1..Len(t.shape) : offshape(t.shape[k]), <<"Stage", "predicted-layout-shaping">>)
                \cup If(tot = ng /\ \E k \in 1..Len(t.locl) : offlocl(t.locl[k]), <<"Stage", "predicted-locl-shaping">>)
  IN IF ~WellFormedMerged(M) THEN totals \cup {<<"Totals", "malformed-result">>}
     ELSE totals \cup unique \cup firstwins \cup kept \cup dupkept \cup duprule \cup shaping \cup stages \cup pred

Judge(t) ==
  IF t.k # "merge" THEN {<<"unknown-kind", t.k>>}
  ELSE IF \E i \in 1..Len(t.fonts) : ~WellFormedFont(t.fonts[i]) THEN {<<"skip:malformed-input", "">>}
  ELSE IF t.raised # "" THEN {<<"Merge", "raised">>}
  ELSE JudgeMerged(t)

Pending == {<<"pending", "">>}
Init == /\ tid \in 1..NTraces /\ verdict = Pending
        /\ fonts = <<>> /\ pc = "judge" /\ bug = "none" /\ idf = FALSE /\ ign = {} /\ orders = <<>>
        /\ mcmap = <<>> /\ dups = <<>> /\ merged = <<>>
Next == verdict = Pending /\ verdict' = Judge(Traces[tid]) /\ UNCHANGED <<tid, mvars>>
Report == verdict # Pending => \A c \in verdict : PrintT(<<"REJ", tid, c[1], c[2]>>)
=============================================================================
