CONSTANTS
  MaxLen = 255
  CounterWidth = 15
  CounterLimit = 1000000000
INIT Init
NEXT Next
INVARIANT Report
CHECK_DEADLOCK FALSE
