----------------------------- MODULE Trace_C19 -----------------------------
(* C19: design sources survive being written and read back.  One judged case per trace;
   the harness drives the real fontTools writers/readers and the real file-name
   functions and records what they did; every accept/reject decision is taken here.
     fn      a history of userNameToFileName / handleClash calls (real constants 255/15):
             Legal, Bounded, CaseUnique per name against the names handed out before,
             equality with the specification's predicted name, contents.plist bijection
     axmap   map_forward / map_backward results on a knot list, exact rationals
     tree    a document projected before writing and after reading back: ReadWrite
     upconv  UFO 2 groups/kerning as read through the UFO 3 interface: UpConvert
   Transport only (no judgement): values that occur several times in a batch are sent once,
   in a pool file (environment variable C19_POOL), and referred to by position; Expand /
   SeqVal put them back before anything is judged, like UnRle does for runs.            *)
EXTENDS TraceIO, Filenames, AxisMap, DocSem

(* [tree |-> sequence of tree nodes, seq |-> sequence of integer sequences] *)
Pool == JsonDeserialize(IOEnv.C19_POOL)
SeqRefBase == 1000000000
SeqVal(x) == IF Len(x) = 1 /\ x[1] <= -SeqRefBase THEN Pool.seq[-x[1] - SeqRefBase] ELSE x
RECURSIVE Expand(_)
Expand(t) == IF t[1] = "P" THEN Expand(Pool.tree[t[2]])
             ELSE IF t[1] = "L" THEN <<"L", [i \in 1..Len(t[2]) |-> Expand(t[2][i])]>>
             ELSE IF t[1] = "D" THEN <<"D", [i \in 1..Len(t[2]) |-> <<t[2][i][1], Expand(t[2][i][2])>>]>>
             ELSE t

VARIABLES tid, verdict
vars == <<tid, verdict>>

(* ---- file names --------------------------------------------------------------- *)
Str3(a, b, c) == <<a, b, c>>
COM == <<99, 111, 109>>
LPT == <<108, 112, 116>>
SpecIllegal == (0..31) \cup {127, 34, 42, 43, 47, 58, 60, 62, 63, 91, 92, 93, 124}   \* UFO 3 conventions
SpecReserved == { <<99, 111, 110>>, <<112, 114, 110>>, <<97, 117, 120>>, <<99, 108, 111, 99, 107, 36>>, <<110, 117, 108>> }
                \cup {Append(COM, d) : d \in 49..52} \cup {Append(LPT, d) : d \in 49..51}
UfoLibIllegal == SpecIllegal \cup {40, 41}                                           \* ufoLib adds "(" ")"
UfoLibReserved == SpecReserved \cup {Append(COM, d) : d \in 49..57} \cup {Append(LPT, d) : d \in 49..57}
SpecCx(t) == [illegal |-> SpecIllegal, reserved |-> SpecReserved, lc |-> t.lc]
ImplCx(t) == IF t.flavor = "ufo" THEN [illegal |-> UfoLibIllegal, reserved |-> UfoLibReserved, lc |-> t.lc]
             ELSE SpecCx(t)

(* long texts travel run-length encoded: a negative entry -n repeats the code point before
   it n more times; texts without a run are themselves *)
RECURSIVE UnRleFrom(_, _, _)
UnRleFrom(r, i, acc) == IF i > Len(r) THEN acc
                        ELSE IF r[i] < 0 THEN UnRleFrom(r, i + 1, acc \o [j \in 1..(-r[i]) |-> r[i - 1]])
                        ELSE UnRleFrom(r, i + 1, Append(acc, r[i]))
UnRle0(r) == IF \A i \in 1..Len(r) : r[i] >= 0 THEN r ELSE UnRleFrom(r, 1, <<>>)
UnRle(r) == UnRle0(SeqVal(r))

(* The predicted name (the reference algorithm of the UFO 3 conventions, transcribed in
   Filenames) is normative only where that algorithm itself keeps the property:
   - it lower-cases with str.lower(), which is character by character except for GREEK CAPITAL
     LETTER SIGMA (U+03A3), whose image (U+03C3 or final U+03C2) depends on the neighbours, so
     for names with a sigma "the same name ignoring case" is not a function of the algorithm;
     the predicted name is compared only in histories without U+03A3 / U+03C3 / U+03C2;
   - where it puts the reserved-name "_" in after clipping and thereby leaves the bound
     (ReservedAfterClip) any bounded answer is accepted.
   Legal / Bounded / CaseUnique are judged for every history and every name.            *)
Transcribable(name) == \A j \in 1..Len(name) : name[j] \notin {931, 962, 963}

(* what the specification predicts for the call that was made *)
Predict(ci, st, user, E) ==
  CASE st.fnk = "u" -> ToFileName(ci, user, E, st.p, st.s)
    [] st.fnk = "c1" -> Clash1(ci, user, E, st.p, st.s)
    [] OTHER -> Clash2(ci, E, st.p, st.s)

RECURSIVE FnFrom(_, _, _, _)
FnFrom(t, i, E, faithful) ==
  IF i > Len(t.steps) THEN <<"ok">>
  ELSE LET st == t.steps[i] cs == SpecCx(t) ci == ImplCx(t) out == UnRle(st.out) user == UnRle(st.u) outl == UnRle(st.outl) IN
    IF st.exc = 1 THEN (IF Predict(ci, st, user, E) = NONAME THEN FnFrom(t, i + 1, E, faithful)
                        ELSE <<"fn:exception", i>>)
    ELSE LET low == LowerS(cs, out)
             bad == {j \in 1..Len(out) : out[j] \in SpecIllegal}
             parts == Split(out)
    IN IF bad # {} THEN <<"fn:legal:char", out[Min(bad)], i>>
       ELSE IF \E j \in 1..Len(parts) : IsReserved(cs, parts[j]) THEN <<"fn:legal:reserved", i>>
       ELSE IF Len(out) > MaxLen THEN
              (* named root cause: exactly the over-long name of the reference algorithm, which clips before it
                 puts the "_" in front of a reserved part; any other over-long name has another cause *)
              <<IF st.fnk = "u" /\ ReservedAfterClip(ci, user, st.p, st.s) /\ out = st.p \o Fixed(ci, user, st.p, st.s) \o st.s
                THEN "fn:bounded:reserved-prefix-after-clip" ELSE "fn:bounded:other", i>>
       ELSE IF low \in E THEN <<IF low # outl \/ ~faithful THEN "fn:caseunique:contextual-lower" ELSE "fn:caseunique", i>>
       ELSE IF faithful /\ t.predict = 1 /\ Transcribable(user) /\ ~(st.fnk = "u" /\ ReservedAfterClip(ci, user, st.p, st.s))
               /\ Predict(ci, st, user, E) # out THEN <<"fn:predicted", i>>
       ELSE FnFrom(t, i + 1, E \cup {low}, faithful /\ low = outl /\ Transcribable(user))

JFn(t) ==
  LET v == FnFrom(t, 1, {t.pre[i] : i \in 1..Len(t.pre)}, TRUE) IN
  IF v # <<"ok">> \/ t.hasc = 0 THEN v
  ELSE (* contents.plist read back is exactly the map glyph name -> file name, one to one *)
    LET want == {<<UnRle(t.steps[i].u), UnRle(t.steps[i].out)>> : i \in 1..Len(t.steps)}
        got == {<<t.contents[i][1], t.contents[i][2]>> : i \in 1..Len(t.contents)}
    IN IF want # got \/ Cardinality({p[2] : p \in got}) # Cardinality({p[1] : p \in got}) THEN <<"fn:contents-bijection">>
       ELSE IF {t.disk[i] : i \in 1..Len(t.disk)} # {p[2] : p \in got} THEN <<"fn:contents-disk">>   \* files on disk = files listed
       ELSE <<"ok">>

(* ---- axis maps ---------------------------------------------------------------- *)
Rt(p) == <<p[1], p[2]>>
DFwd(K, v) == IF \E i \in 1..Len(K) : K[i][1] = v THEN K[Min({i \in 1..Len(K) : K[i][1] = v})][2] ELSE v
DBwd(K, v) == IF \E i \in 1..Len(K) : K[i][2] = v THEN K[Min({i \in 1..Len(K) : K[i][2] = v})][1] ELSE v
RECURSIVE AxFrom(_, _, _)
AxFrom(t, K, i) ==
  IF i > Len(t.pts) THEN <<"ok">>
  ELSE LET p == t.pts[i] v == Rt(p.v) IN
    IF t.discrete = 1 THEN
      IF Rt(p.f) # DFwd(K, v) THEN <<"axmap:discrete-forward", i>>
      ELSE IF Rt(p.b) # DBwd(K, v) THEN <<"axmap:discrete-backward", i>>
      ELSE IF t.strict = 1 /\ (\E j \in 1..Len(K) : K[j][1] = v) /\ Rt(p.bf) # v THEN <<"axmap:discrete-inverse", i>>
      ELSE AxFrom(t, K, i + 1)
    ELSE IF ~(IsRat(v) /\ Fits(v)) THEN <<"malformed:axmap-rational", i>>
    ELSE IF Rt(p.f) # Fwd(K, v) THEN <<"axmap:forward", i>>
    ELSE IF Rt(p.b) \notin BwdSet(K, v) THEN <<"axmap:backward", i>>
    ELSE IF Rt(p.fb) # v THEN <<"axmap:inverse-forward-of-backward", i>>
    ELSE IF t.strict = 1 /\ Rt(p.bf) # v THEN <<"axmap:inverse-backward-of-forward", i>>
    ELSE AxFrom(t, K, i + 1)
JAxmap(t) ==
  LET K == [i \in 1..Len(t.knots) |-> <<Rt(t.knots[i][1]), Rt(t.knots[i][2])>>] IN
  \* monotone maps: weakly increasing, or strictly decreasing (a mirrored axis); Fwd / BwdSet are direction-agnostic
  IF t.discrete = 0 /\ ~(Functional(K) /\ (WeaklyIncreasing(K) \/ StrictlyDecreasing(K))) THEN <<"malformed:axmap-not-monotone">>
  ELSE IF t.discrete = 0 /\ (t.strict = 1) # (StrictlyIncreasing(K) \/ (Len(K) >= 2 /\ StrictlyDecreasing(K))) THEN <<"malformed:axmap-strict-flag">>
  ELSE AxFrom(t, K, 1)

(* ---- document trees ------------------------------------------------------------- *)
JTree(t) ==
  LET a == Expand(t.a) b == Expand(t.b) IN
  IF ~WellFormed(a) THEN <<"malformed:tree-a">>
  ELSE IF t.raised = 1 THEN <<"tree:raised">>          \* the writer or the reader raised on a valid document
  ELSE IF ~WellFormed(b) THEN <<"malformed:tree-b">>
  ELSE IF ~ReadWrite(a, b) THEN <<"tree:diff", Diff(a, b)>>
  ELSE IF t.haspoint = 1 /\ t.fam = "ds" /\
          <<t.fmt[1], t.fmt[2]>> # <<EffectiveMajor(t.point.kind, {t.point.present[i] : i \in 1..Len(t.point.present)}, t.point.ver),
                                     EffectiveMinor(t.point.kind, {t.point.present[i] : i \in 1..Len(t.point.present)}, t.point.ver)>>
       THEN <<"ds:format-version">>
  ELSE <<"ok">>

(* ---- UFO 2 -> 3 ------------------------------------------------------------------- *)
JUp(t) ==
  LET glyphs == {t.glyphs[i] : i \in 1..Len(t.glyphs)}
      g == [i \in 1..Len(t.groups) |-> <<t.groups[i][1], t.groups[i][2]>>]
      k == [i \in 1..Len(t.kerning) |-> <<t.kerning[i][1], t.kerning[i][2], t.kerning[i][3]>>]
  IN IF ~UpDefined(g, k, glyphs) THEN <<"skip:upconv-rename-collision">>
     ELSE IF t.raised = 1 THEN <<"upconv:raised">>
     ELSE IF UpGroups(g, k, glyphs) # {<<t.groups3[i][1], t.groups3[i][2]>> : i \in 1..Len(t.groups3)} THEN <<"upconv:groups">>
     ELSE IF UpKerning(g, k, glyphs) # {<<t.kerning3[i][1], t.kerning3[i][2], t.kerning3[i][3]>> : i \in 1..Len(t.kerning3)} THEN <<"upconv:kerning">>
     ELSE <<"ok">>

Judge(t) ==
  CASE t.k = "fn" -> JFn(t)
    [] t.k = "axmap" -> JAxmap(t)
    [] t.k = "tree" -> JTree(t)
    [] t.k = "upconv" -> JUp(t)
    [] OTHER -> <<"malformed:unknown-kind">>

Init == tid \in 1..NTraces /\ verdict = <<"pending">>
Next == verdict = <<"pending">> /\ verdict' = Judge(Traces[tid]) /\ UNCHANGED tid
Report == (verdict[1] \notin {"pending", "ok"}) => Reject(tid, verdict)
=============================================================================
