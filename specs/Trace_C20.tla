----------------------------- MODULE Trace_C20 -----------------------------
(* C20: damaged or hostile input fails cleanly and is never executed.
   Record kinds (one per trace):
   "reader": a corpus file (its first bytes), and a list of faults (truncate at k / flip byte
             pos to val) each with what the real reader did: open outcome and per-table
             raw-load outcomes.  Judged against ReaderFaults.Predict.
   "atomic": save() onto an existing destination with one table made to fail: destination
             content id before / after, and whether the call raised.
   "audit":  the interpreter audit events observed while a hostile text input (TTX, FEA,
             designspace, GLIF, plist) was consumed, reduced to policy-relevant facts.   *)
EXTENDS TraceIO, ReaderFaults

VARIABLES tid, done, verdict
vars == <<tid, done, verdict>>

(* ---- reader ---- *)
FaultClause(t, f) ==
  LET flip == IF f.f = "flip" THEN <<f.pos, f.val>> ELSE <<>>
      fileLen == IF f.f = "trunc" THEN f.k ELSE t.fileLen
      base == IF f.f = "garbage" THEN f.bytes ELSE t.base
      p == Predict(base, flip, fileLen, t.fontNumber)
      o == f.obs
  IN IF o.open \notin {"ok", "error"} THEN "reader:foreign-exception-at-open"
     ELSE IF p.open = "error" /\ o.open = "ok" THEN "reader:opened-a-file-that-is-not-all-there"
     ELSE IF f.f = "none" /\ o.open # "ok" THEN "reader:intact-file-refused"
     ELSE IF o.open = "ok" /\ \E i \in 1..Len(o.loads) : o.loads[i][2] = 2 THEN "reader:foreign-exception-at-load"
     ELSE IF o.open = "ok" /\ p.open = "ok" /\ p.kind \in {"sfnt", "ttc"} /\
             \E i \in 1..Len(o.loads) :
                LET k == LastWith(p.entries, t.tags[o.loads[i][1]]) IN
                k > 0 /\ LoadOutcome(p.entries[k], fileLen) = "error" /\ o.loads[i][2] = 0
          THEN "reader:loaded-a-table-that-is-not-all-there"
     ELSE IF o.open = "ok" /\ p.kind = "woff" /\ p.open # "unknown" /\ p.open # "error" /\
             \E i \in 1..Len(o.loads) :
                LET k == LastWith(p.entries, t.tags[o.loads[i][1]]) IN
                k > 0 /\ WoffLoadOutcome(p.entries[k], fileLen) = "error" /\ o.loads[i][2] = 0
          THEN "reader:loaded-a-table-that-is-not-all-there"
     ELSE IF f.f = "none" /\ \E i \in 1..Len(o.loads) : o.loads[i][2] # 0 THEN "reader:intact-table-refused"
     ELSE "ok"

JReader(t) == {<<i, FaultClause(t, t.faults[i])>> : i \in {j \in 1..Len(t.faults) : FaultClause(t, t.faults[j]) # "ok"}}

(* ---- atomic save ---- *)
JAtomic(t) ==
  IF ~t.raised THEN "atomic:failing-compile-did-not-raise"
  ELSE IF t.existedBefore /\ (~t.existsAfter \/ t.after # t.before) THEN "atomic:destination-changed-by-failed-save"
  ELSE "ok"

(* ---- audit policy: while text input is consumed nothing from it may be executed and no
        file outside the requested output location may be created or written ---- *)
JAudit(t) ==
  LET ev == t.events
      BadExec == \E i \in 1..Len(ev) : ev[i].k \in {"exec", "compile"} /\ ev[i].marker
      BadProc == \E i \in 1..Len(ev) : ev[i].k \in {"os.system", "subprocess.Popen", "os.exec", "os.posix_spawn", "os.spawn", "import-canary"}
      BadWrite == \E i \in 1..Len(ev) : ev[i].k = "open-write" /\ ~ev[i].inside
  IN IF BadExec THEN "audit:input-text-was-compiled-or-executed"
     ELSE IF BadProc THEN "audit:process-or-import-triggered-by-input"
     ELSE IF BadWrite \/ t.outsideChanged THEN "audit:wrote-outside-requested-location"
     ELSE IF t.canaryFired THEN "audit:canary-side-effect"
     ELSE "ok"

One(c) == IF c = "ok" THEN {} ELSE {<<0, c>>}
Judge(t) == CASE t.k = "reader" -> JReader(t) [] t.k = "atomic" -> One(JAtomic(t)) [] t.k = "audit" -> One(JAudit(t)) [] OTHER -> {<<0, "unknown-kind">>}

Init == tid \in 1..NTraces /\ done = FALSE /\ verdict = {}
Next == ~done /\ done' = TRUE /\ verdict' = Judge(Traces[tid]) /\ UNCHANGED tid
Report == done => \A b \in verdict : PrintT(<<"REJ", tid, b[2], b[1]>>)
=============================================================================
