------------------------------- MODULE VarSem -------------------------------
(* OpenType font-variations arithmetic in exact rationals (module Rat).

   Sources: OpenType "Font Variations Common Table Formats" (variation regions, "Calculation
   of scalar for a region", item variation store "Processing"), 'fvar'/"OpenType Font
   Variations Overview" (coordinate normalisation), 'avar' (segment maps).

   Conventions (shared by Tent, Model, IUP, VarStoreSem and their clients):
     * a coordinate / scalar / delta is a Rat;  a *tent* is <<start, peak, end>>;
     * a *location* is a sequence of normalised coordinates, one per axis (dense; an axis
       a sparse location does not mention is 0);
     * a *region* is a sequence of tents, one per axis (dense, like VarRegionList; an axis
       that does not participate has peak 0, e.g. <<0,0,0>>);
     * poisoned (overflowed) values propagate: every operator returns RNaN when an input
       or an intermediate is RNaN. *)
EXTENDS Rat

Tent(lo, pk, up) == <<lo, pk, up>>
NoTent == <<RZero, RZero, RZero>>
TentBad(t) == RBad(t[1]) \/ RBad(t[2]) \/ RBad(t[3])

(* A tent the OpenType algorithm ignores (its axis scalar is 1 everywhere) *)
TentIgnored(t) == \/ RLt(t[2], t[1]) \/ RLt(t[3], t[2])       \* start > peak or peak > end
                  \/ RIsZero(t[2])                              \* peak = 0
                  \/ (RIsNeg(t[1]) /\ RIsPos(t[3]))            \* start < 0 < end, peak # 0

(* per-axis scalar: the OpenType text, clause by clause *)
AxisScalar(t, v) ==
  IF TentBad(t) \/ RBad(v) THEN RNaN
  ELSE IF TentIgnored(t) THEN ROne
  ELSE IF RLt(v, t[1]) \/ RLt(t[3], v) THEN RZero
  ELSE IF v = t[2] THEN ROne
  ELSE IF RLt(v, t[2]) THEN RDiv(RSub(v, t[1]), RSub(t[2], t[1]))
  ELSE RDiv(RSub(t[3], v), RSub(t[3], t[2]))

(* region scalar = product of the axis scalars; an exact zero factor decides the product *)
RECURSIVE RegionScalarFrom(_, _, _, _)
RegionScalarFrom(reg, loc, i, acc) ==
  IF i > Len(reg) THEN acc
  ELSE LET s == AxisScalar(reg[i], IF i <= Len(loc) THEN loc[i] ELSE RZero)
           a == RMul(acc, s)
       IN IF RIsZero(s) THEN RZero ELSE RegionScalarFrom(reg, loc, i + 1, a)
RegionScalar(reg, loc) == RegionScalarFrom(reg, loc, 1, ROne)

(* value contributed at loc by a list of <<region, delta>> pairs (a tuple variation store
   for one scalar value, or one row of an item variation store) *)
RECURSIVE EvalDeltasFrom(_, _, _, _)
EvalDeltasFrom(rds, loc, i, acc) ==
  IF i > Len(rds) THEN acc
  ELSE LET a == IF RIsZero(rds[i][2]) THEN acc   \* a zero delta contributes nothing whatever the scalar
                ELSE RAdd(acc, RMul(RegionScalar(rds[i][1], loc), rds[i][2]))
       IN EvalDeltasFrom(rds, loc, i + 1, a)
EvalDeltas(rds, loc) == EvalDeltasFrom(rds, loc, 1, RZero)

(* sum_i scalars[i] * values[i] *)
RECURSIVE DotFrom(_, _, _, _)
DotFrom(a, b, i, acc) == IF i > Len(a) THEN acc ELSE LET c == RAdd(acc, RMul(a[i], b[i])) IN DotFrom(a, b, i + 1, c)
Dot(a, b) == DotFrom(a, b, 1, RZero)

(* ---- coordinate normalisation ('fvar' axis record <<min, default, max>>) ---------------
   clamp to [min, max]; default -> 0; below default scale by (default - min), above by
   (max - default).  After clamping a degenerate side is never divided by. *)
NormalizeValue(v, tr) ==
  IF RBad(v) \/ RBad(tr[1]) \/ RBad(tr[2]) \/ RBad(tr[3]) THEN RNaN
  ELSE LET c == RMax(RMin(v, tr[3]), tr[1])
       IN IF c = tr[2] THEN RZero
          ELSE IF RLt(c, tr[2]) THEN RDiv(RSub(c, tr[2]), RSub(tr[2], tr[1]))
          ELSE RDiv(RSub(c, tr[2]), RSub(tr[3], tr[2]))
NormalizeLocation(loc, axes) == TLCEval([i \in 1..Len(axes) |-> NormalizeValue(loc[i], axes[i])])

(* ---- piecewise-linear map ('avar' segment map; designspace axis map) ------------------
   m is a sequence of <<from, to>> pairs with strictly increasing `from`.  Between two
   entries the map interpolates linearly ('avar'); an exact `from` value maps to its `to`;
   outside the covered range the map continues with slope 1 (the designspace convention;
   'avar' maps always cover [-1, 1] so this never applies there); the empty map is the
   identity. *)
PwlWellFormed(m) == \A i \in 1..Len(m) - 1 : RLt(m[i][1], m[i + 1][1])
PiecewiseLinearMap(m, v) ==
  IF RBad(v) THEN RNaN
  ELSE IF Len(m) = 0 THEN v
  ELSE IF \E i \in 1..Len(m) : m[i][1] = v THEN m[CHOOSE i \in 1..Len(m) : m[i][1] = v][2]
  ELSE IF RLt(v, m[1][1]) THEN RAdd(v, RSub(m[1][2], m[1][1]))
  ELSE IF RLt(m[Len(m)][1], v) THEN RAdd(v, RSub(m[Len(m)][2], m[Len(m)][1]))
  ELSE LET i == CHOOSE k \in 1..Len(m) - 1 : RLt(m[k][1], v) /\ RLt(v, m[k + 1][1])
           a == m[i]
           b == m[i + 1]
       IN RAdd(a[2], RDiv(RMul(RSub(b[2], a[2]), RSub(v, a[1])), RSub(b[1], a[1])))
=============================================================================
