----------------------------- MODULE VarStoreSem -----------------------------
(* Item variation store (OpenType "Item variation stores"): evaluation and the
   value-preservation (neutrality) contract of store rewrites.

   store == [regions |-> Seq(region),                \* VarRegionList (dense regions, VarSem)
             data    |-> Seq([ri    |-> Seq(Nat),    \* VarData: 0-based region indices (columns)
                              items |-> Seq(Seq(Int))])]   \* one row of deltas per item
   A variation index is <<outer, inner>> (both 0-based, as stored in fonts);
   NoVarIdx = <<65535, 65535>> means "no variation".

   Processing (spec): delta(outer, inner, loc) = sum over the VarData's columns k of
   RegionScalar(regions[ri[k]], loc) * items[inner][k].  An index outside the store
   contributes 0 (the policy of fontTools' VarStoreInstancer and of HarfBuzz; the OpenType
   text leaves it undefined) -- named deviation, flagged by StoreHas. *)
EXTENDS VarSem

NoVarIdx == <<65535, 65535>>
StoreHas(st, vi) == /\ vi[1] < Len(st.data) /\ vi[2] < Len(st.data[vi[1] + 1].items)
StoreWellFormed(st) ==
  /\ \A r \in 1..Len(st.regions) : \A q \in 1..Len(st.regions) : Len(st.regions[r]) = Len(st.regions[q])
  /\ \A d \in 1..Len(st.data) :
       /\ \A k \in 1..Len(st.data[d].ri) : st.data[d].ri[k] >= 0 /\ st.data[d].ri[k] < Len(st.regions)
       /\ \A i \in 1..Len(st.data[d].items) : Len(st.data[d].items[i]) = Len(st.data[d].ri)
AllIdx(st) == UNION {{<<d - 1, i - 1>> : i \in 1..Len(st.data[d].items)} : d \in 1..Len(st.data)}

(* the <<region, delta>> list of one item *)
StoreRow(st, vi) ==
  LET d == st.data[vi[1] + 1]
  IN TLCEval([k \in 1..Len(d.ri) |-> <<st.regions[d.ri[k] + 1], RInt(d.items[vi[2] + 1][k])>>])
StoreEval(st, vi, loc) ==
  IF vi = NoVarIdx \/ ~StoreHas(st, vi) THEN RZero ELSE EvalDeltas(StoreRow(st, vi), loc)

(* ---- contract of a rewrite st -> st2 with index map `map` (set or sequence range of
   <<old index, new index>> pairs): every mapped item keeps its value at every location *)
NeutralAt(st, st2, e, loc) ==
  LET a == StoreEval(st, e[1], loc)
      b == StoreEval(st2, e[2], loc)
  IN IF RBad(a) \/ RBad(b) THEN "overflow" ELSE IF a = b THEN "ok" ELSE "differs"
Neutral(st, st2, map, Locs) == \A e \in map : \A loc \in Locs : NeutralAt(st, st2, e, loc) = "ok"
MapCovers(idxs, map) == idxs \subseteq {e[1] : e \in map}
MapTargetsExist(st2, map) == \A e \in map : e[2] = NoVarIdx \/ StoreHas(st2, e[2])

(* ---- abstract rewrites (the steps optimize / prune_regions / subset_varidxes are made of) --- *)
SeqOfSet(S) == LET RECURSIVE f(_, _)
                   f(T, acc) == IF T = {} THEN acc
                                ELSE LET x == CHOOSE x \in T : \A y \in T : x <= y
                                         rest == T \ {x}
                                         acc2 == Append(acc, x)
                                     IN f(rest, acc2)
               IN f(S, <<>>)
IdxKey(vi) == vi[1] * 65536 + vi[2]
SeqOfIdxSet(S) == LET keys == SeqOfSet({IdxKey(vi) : vi \in S})
                  IN TLCEval([i \in 1..Len(keys) |-> <<keys[i] \div 65536, keys[i] % 65536>>])
IdMap(st) == {<<vi, vi>> : vi \in AllIdx(st)}

(* prune_regions: drop regions no VarData refers to, renumber *)
PruneRegions(st) ==
  LET used == SeqOfSet(UNION {{st.data[d].ri[k] : k \in 1..Len(st.data[d].ri)} : d \in 1..Len(st.data)})
      new(r) == (CHOOSE j \in 1..Len(used) : used[j] = r) - 1
  IN [regions |-> TLCEval([j \in 1..Len(used) |-> st.regions[used[j] + 1]]),
      data |-> TLCEval([d \in 1..Len(st.data) |->
                 [ri |-> TLCEval([k \in 1..Len(st.data[d].ri) |-> new(st.data[d].ri[k])]),
                  items |-> st.data[d].items]])]

(* VarData.optimize / calculateNumShorts(optimize): keep the columns `cols` (1-based column
   numbers, in the new order) of VarData d; neutral iff every dropped column is all zero *)
SelectColumns(st, d, cols) ==
  [st EXCEPT !.data[d] =
     [ri |-> TLCEval([k \in 1..Len(cols) |-> st.data[d].ri[cols[k]]]),
      items |-> TLCEval([i \in 1..Len(st.data[d].items) |->
                   TLCEval([k \in 1..Len(cols) |-> st.data[d].items[i][cols[k]]])])]]
ZeroColumn(st, d, c) == \A i \in 1..Len(st.data[d].items) : st.data[d].items[i][c] = 0
NonZeroColumns(st, d) == SeqOfSet({c \in 1..Len(st.data[d].ri) : ~ZeroColumn(st, d, c)})

(* optimize, first step: every row extended to one column per region (a region listed
   twice in ri adds up) *)
FullRow(st, vi) ==
  LET d == st.data[vi[1] + 1]
      RECURSIVE sum(_, _, _)
      sum(r, k, acc) == IF k > Len(d.ri) THEN acc
                        ELSE LET a == IF d.ri[k] = r THEN acc + d.items[vi[2] + 1][k] ELSE acc
                             IN sum(r, k + 1, a)
  IN TLCEval([r \in 1..Len(st.regions) |-> sum(r - 1, 1, 0)])
(* all items regrouped into VarData of full width according to `group` (item index -> group
   number 1..G, 0 = all-zero row mapped to NoVarIdx); rows within a group in the order `order` *)
Regroup(st, groups) ==    \* groups: sequence of sequences of old indices, pairwise disjoint
  [regions |-> st.regions,
   data |-> TLCEval([g \in 1..Len(groups) |->
              [ri |-> TLCEval([r \in 1..Len(st.regions) |-> r - 1]),
               items |-> TLCEval([i \in 1..Len(groups[g]) |-> FullRow(st, groups[g][i])])]])]
RegroupMap(st, groups) ==
  UNION {{<<groups[g][i], <<g - 1, i - 1>>>> : i \in 1..Len(groups[g])} : g \in 1..Len(groups)}
    \cup {<<vi, NoVarIdx>> : vi \in {v \in AllIdx(st) : \A g \in 1..Len(groups) : \A i \in 1..Len(groups[g]) : groups[g][i] # v}}
ZeroRow(st, vi) == \A r \in 1..Len(st.regions) : FullRow(st, vi)[r] = 0

(* subset_varidxes: keep the items in `keep` (a set of old indices), in increasing order,
   dropping VarData that become empty *)
Subset(st, keep) ==
  LET majors == SeqOfSet({vi[1] : vi \in keep})
      minors(m) == SeqOfSet({vi[2] : vi \in {v \in keep : v[1] = m}})
  IN [regions |-> st.regions,
      data |-> TLCEval([j \in 1..Len(majors) |->
                 [ri |-> st.data[majors[j] + 1].ri,
                  items |-> TLCEval([i \in 1..Len(minors(majors[j])) |->
                              st.data[majors[j] + 1].items[minors(majors[j])[i] + 1]])]])]
SubsetMap(st, keep) ==
  LET majors == SeqOfSet({vi[1] : vi \in keep})
      minors(m) == SeqOfSet({vi[2] : vi \in {v \in keep : v[1] = m}})
  IN {<<vi, <<(CHOOSE j \in 1..Len(majors) : majors[j] = vi[1]) - 1,
              (CHOOSE i \in 1..Len(minors(vi[1])) : minors(vi[1])[i] = vi[2]) - 1>>>> : vi \in keep}
=============================================================================
