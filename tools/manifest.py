#!/usr/bin/env python3
"""Generate /verif/MANIFEST.json from the table below (single source of truth) and
validate it and every evidence file against the schemas.  Usage: tools/manifest.py [--validate-only]"""
import json
import os
import subprocess
import sys

VERIF = os.path.dirname(os.path.dirname(os.path.abspath(__file__)))

CHECKS = {
    "C15": dict(
        technique="TLA+ codec decoders (Codec.tla) model-checked for inverse laws; batch trace validation by TLC of real encoder/decoder runs over whole domains",
        text="TLC enumerates the specification's own encoders on whole small domains (MC_Codec) and then judges every case recorded from the real encoders/decoders (18 codecs: CFF/T1/T2 operands, 16.16, BCD reals, UIntBase128, 255UInt16, uint32var, packed points/deltas, eexec, fixed<->shortest decimal, otRound, timestamps, tag mangling, IFT sparse bit set, sstruct, hex, AGL) by decoding the emitted bytes with decoders transcribed from the governing documents.",
        note="Trusted: TLC, the transcription of the wire formats in Codec.tla (itself checked by MC_Codec), the JSON trace writer. Timestamps before 1970 are outside the codec's domain by the library's documented design.",
        ref="5/C15",
    ),
}

CHECKS["C04"] = dict(
    technique="TLA+ sfnt/TTC/WOFF writer state machine model-checked (MC_SfntWriter); files written by the real library read back by an independent reader and judged by TLC with the same predicates plus derived-field recomputation",
    text="TLC checks the writer machine (offset/padding/sharing/sorted directory/master checksum theorem) for all write orders and payloads within small constants, then judges every file the real library writes (corpus, compiled TTX and generated fonts x flavour x reorderTables x glyf padding x TTC sharing) from integer fields extracted by an independent sfnt/WOFF/WOFF2 reader: alignment, zero padding, non-overlap, sorted directory, search fields, table and master checksums, WOFF/WOFF2 header fields, maxp/head/hhea/loca/glyph-bbox recomputation, flavour neutrality.",
    note="Trusted: TLC, harness/rawsfnt.py (independent reader incl. WOFF2 glyf reconstruction), word sums computed in Python. Derived fields judged only on saves where the library recomputes them; CFF fonts container clauses only.",
    ref="5/C04",
)

CHECKS["C01"] = dict(
    technique="TLA+ TTFont life-cycle state machine (FontLifecycle.tla) model-checked; recorded lives of real TTFont objects replayed by TLC through the same actions (trace validation with learned decoder)",
    text="TLC explores the life-cycle machine (Open/Access/Edit/Save=Write*/Reopen) for every decoder/encoder pair satisfying the codec hypothesis and every access/save order, checking Passthrough, NoDecoderVerbatim, FixedPoint and Complete; the schedules are then executed on real TTFont objects for every corpus font (sfnt, TTC members, WOFF, WOFF2, compiled TTX) x lazy in {None,True,False}, and the recorded events (injectively interned table bytes and decoded-content dumps) are replayed by TLC through the same actions, the refusing clause being the verdict.",
    note="Trusted: TLC, the independent sfnt reader, the TTX dump as canonical content of a decoded table (interned). Masked by name: head.checkSumAdjustment, OS/2 us{First,Last}CharIndex (recomputed on every save), unused post extra names.",
    ref="5/C01",
)

CHECKS["C20"] = dict(
    technique="TLA+ reader-under-faults model (ReaderFaults.tla) model-checked and used by TLC to predict the outcome of every truncation / directory byte flip applied to corpus files; FontLifecycle trace validation for undecodable payloads; TLC-judged crash-point enumeration for failing saves and audit-event policy for hostile text inputs",
    text="TLC checks the reader model on every truncation and header/directory flip of small files, then judges what the real reader did for ~40k faults on corpus sfnt/TTC/WOFF/WOFF2 files against the model's prediction (library error type, never a foreign exception, never data that is not there); damaged payloads under ignoreDecompileErrors are replayed through the FontLifecycle actions (kept raw, re-saved verbatim); one failing compile per table x save entry point (sfnt/woff/woff2/TTC/same file) must leave the destination untouched; one occurrence of every (table, element, attribute) kind of the corpus TTX files is replaced by code-execution / traversal canaries and consumed under an interpreter audit hook whose events TLC judges against the policy, plus the varLib CLI with hostile variable-font names.",
    note="Trusted: TLC, the independent reader, sys.addaudithook event stream. WOFF2 directory not modelled (clean-failure clause only). 'Never executed' is run-time monitoring over input kinds present in the corpus, not a proof over all code paths.",
    ref="5/C20",
)

CHECKS["C16"] = dict(
    technique="TLA+ twin-history model (SaveTwin.tla) model-checked incl. a negative configuration; TLC-generated histories replayed on pairs of real TTFont objects and judged by TLC; subprocess digests across hash seeds / lazy / access orders judged by TLC",
    text="TLC checks SaveTransparent/SaveIdempotent on the twin model (and that they fail when compile-time residue feeds the encoder), exports every history up to 4 operations, which are replayed on two real TTFont objects (one additionally saved/dumped as the history says) over a rotating corpus sample plus generated fonts whose GSUB overflows 16-bit offsets (with and without the HarfBuzz repacker); per-table bytes of the final and repeated saves are judged by TLC. Every pipeline (recompile, TTX import, TTX dump, feaLib, subset, instancer, varLib.build, merge) runs in fresh subprocesses under several PYTHONHASHSEED values x lazy modes x table access orders with SOURCE_DATE_EPOCH pinned; TLC requires one digest per (input, operation).",
    note="Trusted: TLC, sha256/interning of outputs. A handful of hash seeds, not all; edits are a fixed family of benign field edits.",
    ref="5/C16",
)

CHECKS["C03"] = dict(
    technique="TLA+ dump-layout and XML-transport specification (TTXDump.tla) model-checked over the option lattice; real dumps/imports over the lattice judged by TLC (per-table interned bytes, include graph, text channels)",
    text="TLC checks the dump-layout predicate against a reference dumper for every option/selection combination and the XML white-space laws; then every configuration of the real option lattice (splitTables, splitGlyphs, disassembleInstructions, 4 bitmap formats, 3 newline conventions, all/only/skip selections; 288 configurations) is run on a rotating sample of corpus fonts and every font with the default configuration: TLC requires equal compiled bytes per dumped table between the original object model and the re-imported dump (free-text differences licensed only if visible in the dump and vanishing under white-space collapse), a complete and unambiguous include graph of the files written, and unchanged adversarial strings through text-node and attribute channels.",
    note="Trusted: TLC, the independent sfnt reader, regex scan of dump files. Partial dumps are merged into a copy of the original (ttx -m semantics).",
    ref="5/C03",
)

CHECKS["C13"] = dict(
    technique="TLA+ model of the cu2qu search protocol (Cu2Qu.tla) checked by TLC for every Fits table; TLC-exported behaviours replayed into the real functions; dyadic geometric contract (end points, Bernstein certificate, sampled Hausdorff lower bounds) judged by TLC on recorded outputs",
    text="TLC checks the n/i/last_i/MAX_N loop of curve(s)_to_quadratic for every Fits table (3 curves, MAX_N scaled to 4: SameN, Minimality, RaiseNotWorse, Termination) and replays every terminated behaviour into the real functions; recorded outputs of curve_to_quadratic, curves_to_quadratic, the Cu2Qu pens, glyphs_to_quadratic, quadratic_to_curves and Qu2CuPen on lattice cubics (all degeneracy classes) x tolerances x all_quadratic, real-valued curves, inputs that exhaust MAX_N and boundary tolerances are judged in exact dyadic arithmetic: end points exact, every spline piece certified by a Bernstein bound or sampled with a sound distance lower bound, same segment count across masters, error raised only when no n fits.",
    note="Trusted: TLC, float->dyadic conversion with logged slack. Acceptance is evidence at sampled parameters plus the certificate, not a proof over the continuum; rejection is always a real violation. Fits is observed through cubic_approx_spline in the pure-Python build.",
    ref="5/C13 and 6",
)

CHECKS["C02"] = dict(
    technique="TLA+ table decoders written from the OpenType text (TableCodec.tla) model-checked for inverse laws; batch trace validation by TLC of bytes emitted by the real table encoders for generated contents (independent decode, well-formedness, fontTools decompile, HarfBuzz view)",
    text="TLC checks that TableCodec's decoders invert trivially correct TLA+ encoders on every content over small alphabets and exports those contents; they and seeded contents crossing every format decision (cmap 0/4/6/12/13/14 incl. > 64k entries and U+FFFF, hmtx trailing runs, loca short/long boundary x padding, simple-glyph flags / short vectors / repeat limit / instruction lengths up to 65535, composite records with every flag, Coverage / ClassDef formats, UTF-16 names, packed tuple points and deltas) are compiled by the real encoders; TLC decodes the emitted bytes with the specification's decoder, checks the well-formedness the OpenType text demands and compares with the content, with fontTools' own decompile and with HarfBuzz's view; kern/post/OS2/fvar/avar/COLR/CPAL/GSUB/GPOS go through compile -> decompile equality of canonical content trees.",
    note="Trusted: TLC, the transcription of the formats in TableCodec.tla (itself checked by MC_TableCodec), the JSON trace writer. Tables without a TLA+ decoder are compared by canonical TTX content trees (numbers by value, record sets sorted). Named deviations: duplicate 0xFFFF closing segment when U+FFFF is mapped; HarfBuzz reports advances > 32767 modulo 2^16.",
    ref="5/C02",
)

CHECKS["C09"] = dict(
    technique="TLA+ exact-rational semantics of OpenType variation arithmetic (Rat, VarSem, Tent, Model, IUP, VarStoreSem) model-checked on whole lattices; TLC-generated lattices and corpus inputs driven through the real functions with Fraction inputs and the property clauses evaluated by TLC on the code's outputs",
    text="TLC checks the transcribed case analyses (rebaseTent/_solve, VariationModel supports and delta weights, IUP inference and optimisation, VarStore optimise/prune/subset) against the OpenType region/IUP semantics on whole quarter/half lattices; the same lattices (tents x axis limits x points, TLC-generated master sets, small contours and stores) and corpus designspaces / gvar glyphs / item variation stores are pushed through the real rebaseTent, VariationModel, supportScalar, piecewiseLinearMap, OnlineVarStoreBuilder / VarStoreInstancer / VarStore.optimize / prune_regions / subset_varidxes, iup_delta, iup_delta_optimize and TupleVariation.optimize; float outputs are recovered to exact rationals and TLC evaluates Rebase, MasterExact, Weights, *Neutral and OptimizeWithinTol on them.",
    note="Trusted: TLC, Rat.tla (checked by MC_Rat), float -> rational recovery on lattice inputs (a residual >= 1e-9 is itself a rejection). Dirac tents and EPSILON-nudged segments bounded explicitly as named deviations.",
    ref="5/C09",
)

CHECKS["C11"] = dict(
    technique="TLA+ meaning of feature-file programs (FeaSem.tla -> OTLSem.tla) model-checked; TLC-enumerated programs compiled by the real feaLib and observed by HarfBuzz and by structural projection, expected shaping computed by TLC from the program text; print/parse fixed point on interned table bytes",
    text="TLC enumerates feature-file programs from a program-builder machine (classes, lookups and references, lookupflags, script/language, every GSUB and GPOS rule kind in FeaSem's subset) and checks FeaSem/OTLSem internal laws; each program is printed as FEA, compiled with the real addOpenTypeFeaturesFromString, and every input glyph sequence up to length 3 is shaped by HarfBuzz on the compiled bytes and by OTLSem on the decompiled tables; TLC computes Shape(Meaning(program), sequence) from the program alone and requires equality with both. All 163 corpus .fea files go through asFea/parse fixed point and identical-tables clauses; those inside FeaSem's subset also through the shaping judge.",
    note="Trusted: TLC, the FEA printer (cross-checked by parsing back), HarfBuzz configured for plain OpenType lookup-order semantics (PUA input by glyph id, explicit features/script/language); named shaper convention HBZeroMarks. Corpus files outside FeaSem's subset are skipped and counted for the shaping clause.",
    ref="5/C11",
)

CHECKS["C12"] = dict(
    technique="TLA+ Type 2 / CFF2 charstring machine (T2Sem.tla, from Adobe TN 5177 and the CFF2 charstring chapter) model-checked; TLC-exported and grammar-generated programs and every corpus charstring pushed through the real rewritings, original and rewritten program interpreted by TLC on both sides (Run + Canon, stack limit, arities)",
    text="TLC model-checks the charstring machine's own laws on every program of a builder machine (every operator in every argument-count form, width prefix, hints and masks, flex, subroutine calls, blends; run-structured long programs crossing maxstack) and exports the programs; they, seeded grammar-generated programs (fractional operands, encoding-boundary values, CFF2 blends, subroutine cuts), fonts built from them and every charstring of every CFF/CFF2 corpus font go through the real generalize / specialize (with and without preserveTopology, several maxstack values) / compile-decompile / desubroutinize / subroutinize / remove_hints / CFF->CFF2 / CFF2->CFF / optimizeWidths / T2CharStringPen; TLC interprets both programs and requires the same canonical path (exact point structure under preserveTopology), the same advance width, a final endchar where the format has one, and the operand-stack limit and operator arities of the output format at every step.",
    note="Trusted: TLC, the transcription of the Type 2 machine (checked by MC_T2Sem), token marshalling of 16.16 operands as scaled integers. Canon licenses exactly: degenerate curve -> line, zero-length segments dropped, collinear axis-parallel lines summed, lone moves dropped. Corpus master TTX files with ill-formed CFF2 programs are skipped and counted.",
    ref="5/C12",
)

CHECKS["C08"] = dict(
    technique="TLA+ specification of variable-font instancing (Instancer.tla over VarSem/Tent/Rat: operational steps vs declarative contract) model-checked on whole lattices; TLC-exported (store, limits) cases replayed into the real store-level functions and into model fonts through instantiateVariableFont; corpus variable fonts x seeded limits judged by TLC from projections of original and instance at the same user-space locations",
    text="TLC applies the operational instancing steps (normalise limits, rebase each tent, scale, merge equal regions, fold the default, round; avar and feature-variation condition renormalisation) to every abstract font x limit of five families (one / two axes, several delta sets, avar segment maps, feature variations) and compares with the declarative contract at every half-step point of the new space: Preserved exactly before rounding and within the derived budget after, AxesCorrect, Static, TentsInRange, FeatureVars. Every exported case is replayed into the real instantiateTupleVariationStore / instantiateItemVariationStore / instantiateGvarGlyph / _instantiateFeatureVariations (exact rationals) and, as model fonts (glyf, gvar, HVAR with and without map, MVAR, cvar, GDEF/GPOS devices, avar, feature variations, STAT, named instances), through instantiateVariableFont; all 49 variable corpus fonts x 10 seeded limit specifications are projected before and after and evaluated by TLC at the same user locations with the rounding budget derived in the specification, plus table presence for full instances, fvar axes, named instances, STAT values and HarfBuzz-observed substitutions and advances.",
    note="Trusted: TLC, the projection of a font to (axes, regions, items), exact-rational recovery of floats, HarfBuzz for advances/substitutions only. Fonts with more than 6 axes, without a name table, with GPOS feature variations, or whose arithmetic leaves 31 bits are skipped and counted. One open known finding (feature-variation record whose conditions all lie on pinned axes).",
    ref="5/C08 and 12",
)

CHECKS["C18"] = dict(
    technique="TLA+ specification of the font merger's stages (Merge.tla: mega glyph order, mega cmap with the duplicate rule, table merge, layout index remapping, synthesized locl lookup) model-checked incl. negative variants; TLC-exported font lists realised as real TrueType/CFF fonts and merged by the real Merger; corpus tuples; projections and HarfBuzz observations judged by TLC",
    text="TLC checks FirstWins, UniqueNames, Totals, GlyphsKept, DuplicateRule and DisjointShaping (through OTLSem) on every pair / triple of abstract fonts of small families (clashing names, overlapping / disjoint / conflicting cmaps, identical and differing duplicates, five layout kits over three scripts), checks that each of eight wrong-stage variants is rejected, and exports the lists; each is realised with FontBuilder + feaLib in both flavours and merged by the real Merger, as are seed-rotated 2-4-tuples of corpus fonts (as they are and with cmaps relocated to disjoint private-use blocks). TLC judges the projected result: every character maps to a glyph with the outline and advance of the first input supporting it, glyph names unique in memory and in the saved file, glyph totals, differing duplicates reachable through locl, and - for disjoint inputs - HarfBuzz shaping of each input alone equal to shaping with the merged font, plus the predicted mega glyph order, mega cmap and (model fonts) predicted layout.",
    note="Trusted: TLC, the projections, HarfBuzz under explicit script/language/features. Inputs the merger refuses (its own errors, mixed flavours, differing OS/2 versions) are skipped and counted; identical duplicates are never identified by the code (the documented identification is disabled), modelled as the named deviation.",
    ref="5/C18 and 12",
)

CHECKS["C19"] = dict(
    technique="TLA+ specifications of the UFO file-name algorithm as a machine over name histories (Filenames.tla), of design-source documents as value trees with writer/reader laws (DocSem.tla) and of piecewise-linear axis maps in exact rationals (AxisMap.tla), model-checked; TLC-generated name sequences, documents and maps replayed on the real writers/readers and judged by TLC; corpus designspaces, UFOs, GLIF and plist files through write-read-compare",
    text="TLC checks Legal, Bounded and CaseUnique of the transcribed userNameToFileName / handleClash1 / handleClash2 over every name history of small alphabets (counterexamples are replayed on the real functions before they count), inverse laws of axis maps on all monotone knot lists of a lattice, and the optional-field lattice of every document kind; the generated name sequences run on the real functions (as shipped, with padded names reaching the 255 limit, and on real GlyphSet / UFOWriter file creation), generated designspace documents (formats 4 and 5), GLIF glyphs, fontinfo / kerning / groups / lib / layercontents (UFO 2 and 3, with up-conversion) and plist trees (XML and binary) are written by the real writers, read back and compared as value trees by TLC, and every corpus designspace, UFO, .glif and .plist goes through the same write-read-compare.",
    note="Trusted: TLC, the projection of documents to DocSem trees (numbers by value), exact rationals for axis maps. The predicted-name clause (conformance to the UFO 3 reference algorithm) is skipped where the reference itself exceeds 255 characters and for histories containing sigma.",
    ref="5/C19 and 12",
)

CHECKS["C05"] = dict(
    technique="TLA+ reference evaluator of glyph outlines and advances (GlyfSem.tla over IUP / VarSem / VarStoreSem / T2Sem, written from the OpenType glyf, gvar, HVAR, avar, fvar and CFF2 texts) model-checked for its own laws; TLC-emitted and seeded model fonts and every corpus font drawn through the real glyph set at lattice locations, the recorded pen calls and widths judged by TLC against the reference computed from the raw table data; HarfBuzz as a second observer for triage",
    text="TLC checks the reference's laws over seven small universes (contour closure and implied points, IUP identity, default location, peaks and clamping, composite associativity over nesting, scaled / unscaled offsets, point matching, USE_MY_METRICS, HVAR indexing, avar / normalisation, integer-grid outline equality) and emits font descriptions; those, seeded glyf model fonts (all component flag combinations, nesting, every on/off-curve pattern, corner and intermediate tents, sparse and phantom-only point sets, avar, HVAR with and without map) and CFF2 model fonts are realised with FontBuilder and drawn through TTFont.getGlyphSet(location) with a recording pen at every lattice location incl. out-of-range ones; the trace carries the raw points, flags, components, tuple variations, fvar/avar/HVAR data read by independent readers and fontTools' pen calls and width; TLC computes outline and advance from the raw data in exact rationals and requires equality up to start point, empty atoms and 4/2048 unit. Every corpus font (382 incl. compiled TTX) is judged the same way on a seeded glyph sample at default and variation locations; CFF/CFF2 glyphs run through T2Sem once per region and are blended with VarSem scalars.",
    note="Trusted: TLC, GlyfSem (checked by MC_GlyfSem), the independent fvar/avar/gvar/HVAR readers, float -> rational recovery. The reference is evaluated only at locations whose normalised coordinates are exact F2Dot14 numbers. Named conventions accepted: lsb shift and advances rounded with otRound. Out of domain (skipped, counted): VARC, avar 2 at variation locations, cubic glyf, seac, composites whose USE_MY_METRICS component disagrees with their own metrics. Two open known findings (point-matched components, composite lsb shift).",
    ref="5/C05 and 12",
)

CHECKS["C14"] = dict(
    technique="TLA+ specification of the segment-pen and point-pen protocols, their geometric meaning, the normal forms that name what an adapter may change and the exact area / bounds laws (PenProto.tla) model-checked; every TLC-enumerated call sequence replayed through every real adapter and the recorded output calls judged by TLC against the adapter's contract",
    text="TLC enumerates all valid pen call sequences over a point lattice (open / closed contours, lines, quadratic runs with any number of off-curve points, cubics, super-beziers, contours without on-curve point, duplicate and coincident points, single-point contours, components) and checks the laws of the specification itself (Geom of implied points, reversal involution, area negation, free start of all-off-curve contours); each outline, further simulated outlines and every corpus glyph's pen stream go through RecordingPen replay, SegmentToPointPen / PointToSegmentPen (both orders), TransformPen / TransformPointPen, ReverseContourPen / ReverseContourPointPen, RoundingPen / RoundingPointPen, FilterPen, TTGlyphPen / TTGlyphPointPen -> Glyph -> draw (with dropImpliedOnCurves), T2CharStringPen -> charstring -> draw, SVGPathPen -> path -> parse_path (plus relative-command paths), BoundsPen / ControlBoundsPen / AreaPen; TLC requires Canon(Geom(out)) = Contract(Canon(Geom(in))), reverse twice = identity, exact area negation (integer polynomial arithmetic) and mutual consistency of bounds, control bounds and area.",
    note="Trusted: TLC, the recording pens as observers, integer arithmetic at doubled / scaled coordinates. Glyph builders may drop single-point contours (licensed by the property). TrueType cubic glyphs and SVG S/T/A commands are not driven.",
    ref="5/C14 and 12",
)

CHECKS["C10"] = dict(
    technique="TLA+ specification of building a variable font from a designspace (Build.tla over Model / VarSem / AxisMap: Normalise, MakeModel, MakeItems, Assemble) model-checked; TLC-exported designspaces realised as real TrueType and CFF masters and built by the real varLib.build, corpus designspaces with TTX masters built likewise; the projected built font evaluated by TLC at every master location against the projected master",
    text="TLC checks MasterReproduced (every supplied item within 1/2 at its master's normalised location, exactly before rounding), AxisMapping (fvar + avar normalisation equals the designspace's axis map at every knot, midpoint and outside the range), SparseOK and the agreement with Model.tla / AxisMap.tla on exhaustive 1-, 2- and 3-axis families with intermediate, corner and sparse masters; 310 exported designspaces per quick run are realised as master fonts in both flavours (outlines with off-curve points, a composite, a rigidly moving glyph, advances, glyph and class kerning, mark anchors, OS/2 / hhea / post metrics, sparse masters as subset and as empty glyphs) and built with the real varLib.build, as are the 31 corpus designspaces with TTX masters (with and without gvar optimisation); the built font is saved, reloaded and projected (fvar, avar, gvar or CFF2 blends, HVAR, MVAR, GPOS variation indices with the GDEF store) to exact integers and rationals and TLC evaluates every item at every master location; HarfBuzz advances and outlines of the built font at each master's user location are compared with the static master under the same inequality.",
    note="Trusted: TLC, the projections, F2Dot14 slack derived in the specification (zero on lattice designspaces), HarfBuzz as observer. Designspaces with avar 2, discrete axes, UFO-only or UFO-layer masters are skipped and counted; a single-CFF-master designspace (varLib.build raises IndexError) is counted as a skip because one master has nothing to reproduce.",
    ref="5/C10 and 12",
)

CHECKS["C06"] = dict(
    technique="TLA+ specifications of the OTL offset-graph packer (OTLGraph / OTLPack: intern, gather, place, emit) and of the overflow-resolution loop (OTLResolve / OTLRepack: attempt, overflow record, DontShare / extension promotion / subtable split, fallback, return or raise) model-checked; TLC-exported graphs rebuilt with the real OTTableWriter and exported resolution states pushed through the real tryResolveOverflow; recorded resolution loops of real compiles validated step by step; compiled tables judged by Denote equality (OTLSem) and HarfBuzz shaping",
    text="TLC checks InternSound, EveryNodePlaced, TopologicalOrder, EdgesResolve and NoSilentWrap on every writer tree of a small family (shared Coverage, Extension, DontShare, Coverage-last) and DenotationPreserved, Progress, ReturnImpliesValid, RaiseOnlyWhenStuck and termination of the resolution loop over lookup lists built from sixteen subtable prototypes; exported graphs are rebuilt with the real OTTableWriter at 8192 bytes per unit and packed in both packing modes, the bytes read back by a linear scan and by following the stored offsets (overflow iff the model overflows, overflow record, emitted order, every offset lands on its block); exported (lookups, overflow record) states run through the real tryResolveOverflow and TLC compares Denote before and after and the structure with the model's successor; corpus fonts, feaLib builds and sixteen generated tables that overflow at every level are compiled under USE_HARFBUZZ_REPACKER in {False, None, True} and GPOS compaction levels 0..9, decompiled afresh, and TLC checks Denote equality of in-memory and decompiled lookups on rule-derived probes, HarfBuzz agreement across serialisations and with OTLSem, and every recorded resolution loop against the OTLRepack actions; an unpackable table must raise.",
    note="Trusted: TLC, OTLSem, the projection of layout tables, HarfBuzz (hb.repack is a black box judged only through decompile, Denote and shaping). A compile exceeding its CPU budget without a recorded non-progressing step is skipped as inconclusive. OTLResolve transcribes the current fix*/split* arithmetic.",
    ref="5/C06 and 12",
)

CHECKS["C07"] = dict(
    technique="TLA+ specification of the subsetter as a staged state machine over an abstract font (Subset.tla: closure stages, renumbering, per-table subsetting) with the property's clauses as state predicates, model-checked; TLC-exported (font, request, options) cases realised as real fonts and run through the real Subsetter; corpus fonts x seeded requests x options; staged sets, projections and HarfBuzz observations judged by TLC (minimal closure and Shape computed by TLC through OTLSem)",
    text="TLC checks RequestedPresent, ClosureSufficient (least fixed point), Monotone, NoDangling, RetainGids and ShapingPreserved on every request over small abstract fonts (five glyphs, composite, two or three GSUB lookups incl. contextual with nested lookups, one GPOS lookup, two features, retain_gids on/off, option combinations, a second closure pass) and exports the cases; a stratified sample (always including every case whose closure needs a second pass) is realised with FontBuilder + feaLib and subset by the real Subsetter; 300 corpus fonts (binaries, compiled TTX incl. variable and CID-keyed fonts, a synthetic seac font) are subset with seeded unicode / glyph / gid / text requests (incl. requests that split a coverage or drop a class) and option combinations; the trace carries the subsetter's staged sets, its glyph index map, the glyph references of every result table, in-memory and saved cmap, kept outlines / advances / variations / GDEF classes / CFF widths and HarfBuzz shaping of probe texts built from the original's rules on both fonts with exactly the retained features, and TLC judges every clause.",
    note="Trusted: TLC, OTLSem, the projections, HarfBuzz under explicit script/language/features (shaping skipped where HarfBuzz synthesises glyph classes or falls back to another script). Closure from the projection is a lower bound for FeatureVariations alternates, cmap 14 and COLRv1. One open known finding (--no-notdef-glyph renumbers a requested glyph to glyph 0).",
    ref="5/C07 and 12",
)

CHECKS["C17"] = dict(
    technique="TLA+ specifications of glyph reordering (Reorder.tla: the file-level gid-indexed picture vs the name-keyed view) and em rescaling (ScaleUpem.tla: per storage kind rounding bounds, nothing else changes) model-checked incl. negative variants; model fonts and every corpus font transformed by the real reorderGlyphs / scale_upem, by-name and by-kind projections and HarfBuzz / raw-reader observations judged by TLC",
    text="TLC checks that a consistent permutation of every gid-indexed structure leaves the name view unchanged and that each of eight wrong variants (a parallel array not permuted, coverage not re-sorted, ...) is distinguished, and the ScaleUpem bounds for absolute, relative and accumulated quantities with all nine bound witnesses; the model families, hand-built rich TrueType / CFF fonts (hdmx, LTSH, kern, VORG/vmtx, COLR v0/v1, HVAR without map, gvar, cmap 14, device tables, ligature carets, BASE, MATH, SVG, point-matched composites) and all corpus fonts are reordered with seeded permutations and rescaled to seeded upem targets by the real functions; TLC judges per glyph name outline, metrics, cmap, layout Denote, variation data and table views before vs after (reorder), every design-unit number against OtRound(k v) within the bound its storage kind derives and every other field identical (scale), sortedness of coverages, no dangling glyph ids, and HarfBuzz outlines / advances / shaping by name.",
    note="Trusted: TLC, the projections, HarfBuzz and the independent sfnt reader as observers. Tables the transformations declare unsupported (NotImplementedError) are skipped and counted; an exception while scaling up is skipped as possible overflow. One open known finding (SVG glyph-ID ranges).",
    ref="5/C17 and 12",
)

NOT_YET = "check not built yet in this round (see DESIGN.md section 10 for the build order)"


def main():
    props = [json.loads(l) for l in open(os.path.join(VERIF, "properties.jsonl"))]
    checks = []
    na = []
    for p in props:
        pid = p["id"]
        c = CHECKS.get(pid)
        if not c:
            na.append({"property_id": pid, "reason": NOT_YET})
            continue
        checks.append(
            {
                "property_id": pid,
                "quick_cmd": "./check %s --tier quick" % pid,
                "thorough_cmd": "./check %s --tier thorough" % pid,
                "evidence_file": "/verif/evidence/%s.json" % pid,
                "replay_cmd_template": "./check %s --replay {path}" % pid,
                "engine": "tlc",
                "level_claimed": {
                    "category": c.get("category", "model_checking"),
                    "text": c["text"],
                    "design_ref": "DESIGN.md section " + c["ref"],
                },
                "level_note": c["note"],
                "technique": c["technique"],
            }
        )
    hooks_commits = []
    hf = os.path.join(VERIF, "tools", "hook_commits.txt")
    if os.path.exists(hf):
        hooks_commits = [l.strip() for l in open(hf) if l.strip()]
    m = {
        "version": 1,
        "setup_cmd": "./setup.sh",
        "hooks": {
            "guard": "FONTTOOLS_VERIF_TRACE",
            "enable": "FONTTOOLS_VERIF_TRACE=1 PYTHONPATH=/repo/Lib (set by ./check; pure-Python library, nothing to rebuild)",
            "baseline_off_cmd": "cd /repo && env -u FONTTOOLS_VERIF_TRACE PYTHONPATH=/repo/Lib /venv/bin/python -m pytest -ra -q -p no:cacheprovider --timeout=900 --continue-on-collection-errors",
            "source_commits": hooks_commits,
            "add_only": True,
        },
        "engines": [
            {
                "name": "tlc",
                "path": "/verif/specs",
                "serves_properties": sorted(CHECKS),
                "kind_free_text": "explicit TLA+ specifications checked by TLC 1.8 (exhaustive small-constant configs MC_*.cfg; batch trace specifications Trace_*.tla fed with executions recorded from /repo/Lib by /verif/harness)",
            }
        ],
        "checks": checks,
        "notes": "All checks run through ./check <id> [--tier quick|thorough]; they import fontTools from /repo/Lib (PYTHONPATH) so they always see the current working tree. Exit 0 = held, 1 = VIOLATION line printed, 2 = machinery failure.",
        "not_applicable": na,
    }
    if "--validate-only" not in sys.argv:
        with open(os.path.join(VERIF, "MANIFEST.json"), "w") as f:
            json.dump(m, f, indent=1)
    # validate with the tooling venv's jsonschema
    code = r"""
import json, sys, glob, jsonschema
m = json.load(open('/verif/MANIFEST.json'))
jsonschema.validate(m, json.load(open('/root/.vp/MANIFEST.schema.json')))
es = json.load(open('/root/.vp/EVIDENCE.schema.json'))
bad = 0
for f in sorted(glob.glob('/verif/evidence/*.json')):
    try:
        jsonschema.validate(json.load(open(f)), es)
    except Exception as e:
        bad += 1; print('EVIDENCE INVALID', f, str(e)[:300])
print('manifest ok; %d checks; evidence invalid: %d' % (len(m['checks']), bad))
sys.exit(1 if bad else 0)
"""
    return subprocess.call(["python3-vt", "-c", code])


if __name__ == "__main__":
    sys.exit(main())
