#!/usr/bin/env python3
"""Sensitivity self-test: apply one-line mutations to a scratch copy of /repo/Lib and run a check
against it (VERIF_REPO).  Usage: tools/mutate.py Cxx mutants.json [--tier quick]
mutants.json: [{"name":..., "file": "fontTools/..py", "old": "...", "new": "..."}]
Prints one line per mutant: CAUGHT (exit 1) / MISSED (exit 0) / BROKEN (exit 2)."""
import json
import os
import shutil
import subprocess
import sys
import tempfile


def main():
    pid = sys.argv[1]
    muts = json.load(open(sys.argv[2]))
    only = None
    if "--only" in sys.argv:
        only = sys.argv[sys.argv.index("--only") + 1].split(",")
    verif = os.path.dirname(os.path.dirname(os.path.abspath(__file__)))
    results = []
    for m in muts:
        if only and m["name"] not in only:
            continue
        d = tempfile.mkdtemp(prefix="mut-%s-" % pid)
        try:
            shutil.copytree("/repo/Lib", os.path.join(d, "Lib"), ignore=shutil.ignore_patterns("__pycache__"))
            p = os.path.join(d, "Lib", m["file"])
            s = open(p).read()
            if s.count(m["old"]) < 1:
                print("%-40s NOT-APPLICABLE (pattern not found)" % m["name"], flush=True)
                continue
            s = s.replace(m["old"], m["new"], 1)
            open(p, "w").write(s)
            env = dict(os.environ, VERIF_REPO=d)
            r = subprocess.run([os.path.join(verif, "check"), pid] + [a for a in sys.argv[3:] if a.startswith("--tier") or a in ("quick", "thorough")],
                               env=env, capture_output=True, text=True, cwd=verif)
            verdict = {0: "MISSED", 1: "CAUGHT", 2: "BROKEN"}.get(r.returncode, "EXIT%d" % r.returncode)
            clause = ""
            for line in r.stdout.splitlines():
                if line.strip().startswith("clause:"):
                    clause = line.strip()[:160]
                    break
                if "MACHINERY-FAILURE" in line:
                    clause = line[:200]
            print("%-40s %s %s" % (m["name"], verdict, clause), flush=True)
            results.append((m["name"], verdict))
        finally:
            shutil.rmtree(d, True)
    # restore evidence from the real tree is the caller's business (re-run the check)
    return 0


if __name__ == "__main__":
    sys.exit(main())
