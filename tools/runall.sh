#!/bin/bash
# Run every registered quick check on /repo, one after the other; print id, exit code, wall seconds.
cd "$(dirname "$0")/.."
ids=$(/venv/bin/python -c "import json;print(' '.join(c['property_id'] for c in json.load(open('MANIFEST.json'))['checks']))")
[ -n "$1" ] && ids="$@"
mkdir -p /tmp/verif-runall
for c in $ids; do
  t0=$(date +%s)
  ./check $c --tier quick > /tmp/verif-runall/$c.log 2>&1
  rc=$?
  t1=$(date +%s)
  echo "$c exit=$rc wall=$((t1-t0))s $(grep -c KNOWN-FINDING /tmp/verif-runall/$c.log) known $(grep -c '^VIOLATION' /tmp/verif-runall/$c.log) violations"
done
