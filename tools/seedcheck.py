#!/usr/bin/env python3
"""Confirm a seeded breaking change and run the property's check against it.

  tools/seedcheck.py Cxx <n> [--worktree /tmp/seed/Cxx] [--no-tests] [--tier quick] [--checks Cxx,Cyy]

Looks for <worktree>/out/<n>/{patch.diff,demo.py,notes.md} (written by an independent sub-agent that was
given only the property text).  In the scratch worktree (never /repo):
  1. pristine tree: demo.py must exit 0
  2. git apply patch.diff: demo.py must exit non-zero
  3. the repository's test suite must still pass with the patch (unless --no-tests)
  4. ./check <id> with VERIF_REPO=<worktree> must exit 1 (VIOLATION)  -> "caught"
then restores the worktree and writes /verif/seeded/<Cxx>-<n>/{patch.diff,demo.py,notes.md,meta.json}.
"""
import json
import os
import re
import shutil
import subprocess
import sys
import time

VERIF = os.path.dirname(os.path.dirname(os.path.abspath(__file__)))
PY = "/venv/bin/python"


def sh(cmd, cwd=None, env=None, timeout=7200):
    t0 = time.time()
    p = subprocess.run(cmd, cwd=cwd, env=env, capture_output=True, text=True, timeout=timeout)
    return p.returncode, p.stdout + p.stderr, time.time() - t0


def main():
    a = sys.argv[1:]
    pid, n = a[0], a[1]
    wt = "/tmp/seed/" + pid
    tier = "quick"
    tests = True
    checks = [pid]
    i = 2
    while i < len(a):
        if a[i] == "--worktree":
            wt = a[i + 1]; i += 2
        elif a[i] == "--tier":
            tier = a[i + 1]; i += 2
        elif a[i] == "--checks":
            checks = a[i + 1].split(","); i += 2
        elif a[i] == "--no-tests":
            tests = False; i += 1
        else:
            raise SystemExit("unknown arg " + a[i])
    src = os.path.join(wt, "out", n)
    patch = os.path.join(src, "patch.diff")
    demo = os.path.join(src, "demo.py")
    env = dict(os.environ, PYTHONPATH=os.path.join(wt, "Lib"), PYTHONHASHSEED="0")
    env.pop("FONTTOOLS_VERIF_TRACE", None)
    meta = {"id": "%s-%s" % (pid, n), "property": pid, "ran": []}

    def restore():
        sh(["git", "checkout", "--", "Lib", "Tests"], cwd=wt)

    restore()
    # bring the scratch worktree to /repo's current HEAD (fix: commits made since the seeder started), so that the
    # check judges "current tree + seeded change" and not defects that have been repaired meanwhile
    head = sh(["git", "-C", "/repo", "rev-parse", "HEAD"])[1].strip()
    rc, out, _ = sh(["git", "checkout", "-q", "--detach", head], cwd=wt)
    meta["base_commit"] = head[:10]
    if rc != 0:
        meta["error"] = "cannot move worktree to %s: %s" % (head, out[-300:])
        print(json.dumps(meta, indent=1)); return 2
    rc, out, _ = sh([PY, demo], cwd=wt, env=env)
    meta["demo_pristine_exit"] = rc
    meta["ran"].append("pristine: PYTHONPATH=<wt>/Lib python demo.py -> exit %d" % rc)
    rc, out, _ = sh(["git", "apply", patch], cwd=wt)
    if rc != 0:
        meta["error"] = "patch does not apply: " + out[-400:]
        print(json.dumps(meta, indent=1)); restore(); return 2
    try:
        files = sh(["git", "diff", "--stat"], cwd=wt)[1]
        meta["files"] = re.findall(r"^\s*(\S+)\s+\|", files, re.M)
        rc, out, _ = sh([PY, demo], cwd=wt, env=env)
        meta["demo_patched_exit"] = rc
        meta["demo_patched_output"] = out[-600:]
        meta["ran"].append("patched: python demo.py -> exit %d" % rc)
        if tests:
            rc, out, dt = sh([PY, "-m", "pytest", "-q", "-rf", "-p", "no:cacheprovider", "-n", "6"], cwd=wt, env=env)
            failed = [l.strip() for l in out.splitlines() if l.startswith("FAILED ")]
            if failed:  # retry the failing tests alone: under heavy machine load some tests are flaky
                ids = [l.split()[1] for l in failed]
                rc2, out2, _ = sh([PY, "-m", "pytest", "-q", "-p", "no:cacheprovider"] + ids, cwd=wt, env=env)
                meta["tests_failed_first_pass"] = failed
                meta["tests_failed_retry_exit"] = rc2
                if rc2 == 0:
                    rc = 0
                    out += "\n(retry of %d failing tests passed) %d passed" % (len(ids), len(ids))
            tail = [l for l in out.splitlines() if re.search(r"\d+ passed|failed|error", l)][-1:] or [out[-200:]]
            meta["tests_exit"] = rc
            meta["tests_summary"] = tail[0].strip()
            meta["ran"].append("patched: pytest -n 6 Tests -> exit %d (%s) in %.0fs" % (rc, tail[0].strip(), dt))
        meta["checks"] = {}
        for c in checks:
            e2 = dict(os.environ, VERIF_REPO=wt)
            rc, out, dt = sh([os.path.join(VERIF, "check"), c, "--tier", tier], cwd=VERIF, env=e2)
            clauses = [l.strip()[:300] for l in out.splitlines() if l.strip().startswith("clause:")][:6]
            meta["checks"][c] = {"exit": rc, "verdict": {0: "MISSED", 1: "CAUGHT", 2: "BROKEN"}.get(rc, "EXIT%d" % rc),
                                 "tier": tier, "wall_s": round(dt), "clauses": clauses,
                                 "tail": out[-500:] if rc not in (0, 1) else ""}
            meta["ran"].append("patched: VERIF_REPO=<wt> ./check %s --tier %s -> exit %d in %.0fs" % (c, tier, rc, dt))
    finally:
        restore()
    ok = meta.get("demo_pristine_exit") == 0 and meta.get("demo_patched_exit", 0) != 0 and (not tests or meta.get("tests_exit") == 0)
    meta["confirmed"] = bool(ok)
    notes = open(os.path.join(src, "notes.md")).read() if os.path.exists(os.path.join(src, "notes.md")) else ""
    m = re.search(r"(?is)(needs?|manifest)[^\n]*\n(.{0,600})", notes)
    meta["needs_to_manifest"] = "see notes.md"
    dst = os.path.join(VERIF, "seeded", meta["id"])
    if ok:
        os.makedirs(dst, exist_ok=True)
        for f in ("patch.diff", "notes.md"):
            if os.path.exists(os.path.join(src, f)):
                shutil.copy(os.path.join(src, f), os.path.join(dst, f))
        s = open(demo).read().replace(wt, "/repo")
        open(os.path.join(dst, "demo.py"), "w").write(s)
        old = {}
        mp = os.path.join(dst, "meta.json")
        if os.path.exists(mp):
            old = json.load(open(mp))
            old.setdefault("history", []).append({k: old.get(k) for k in ("checks",)})
            meta["history"] = old["history"]
            if not tests:
                for k in ("tests_exit", "tests_summary"):
                    if k in old:
                        meta[k] = old[k]
        json.dump(meta, open(mp, "w"), indent=1)
    print(json.dumps({k: meta[k] for k in meta if k not in ("demo_patched_output",)}, indent=1))
    return 0 if ok else 3


if __name__ == "__main__":
    sys.exit(main())
