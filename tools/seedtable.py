#!/usr/bin/env python3
"""Print the markdown table of seeded breaking changes (seeded/*/meta.json) for DESIGN.md section 12.5."""
import glob
import json
import os

V = os.path.dirname(os.path.dirname(os.path.abspath(__file__)))
rows = []
for mp in sorted(glob.glob(os.path.join(V, "seeded", "*", "meta.json"))):
    m = json.load(open(mp))
    d = os.path.dirname(mp)
    notes = open(os.path.join(d, "notes.md")).read() if os.path.exists(os.path.join(d, "notes.md")) else ""
    title = next((l.strip("# ").strip() for l in notes.splitlines() if l.strip()), "")[:110]
    first = {}
    for h in m.get("history", []):
        for k, v in (h.get("checks") or {}).items():
            first.setdefault(k, v.get("verdict"))
    now = {k: v.get("verdict") for k, v in m.get("checks", {}).items()}
    clause = ""
    for k, v in m.get("checks", {}).items():
        if v.get("clauses"):
            clause = v["clauses"][0].split("::")[0].replace("clause:", "").strip()[:70]
            break
    fv = ", ".join("%s %s" % (k, v) for k, v in first.items()) or "-"
    nv = ", ".join("%s %s" % (k, v) for k, v in now.items())
    rows.append("| %s | %s | %s | %s | %s | `%s` |" % (m["id"], ", ".join(os.path.basename(f) for f in m.get("files", [])), title, fv, nv, clause))
print("| id | file(s) | change | first run | now | rejecting clause |")
print("|---|---|---|---|---|---|")
print("\n".join(rows))
